"""C14 - memoisation is invisible.  Function mode on the REAL memoiser closures (callable_cached._callable_cached,
method_cached_arg_by_id._method_cached), CacheUnboundedStrong, the TypeHint metaclass; tables are ghost maps modulo ==/hash.
The memoised function is an abstract callee under the stated precondition: deterministic and a congruence for ==/hash.
Structural obligations: clear_caches() covers every hint-keyed table; every run-time-filled module table is reviewed."""
import ast, os, sys, time, z3, traceback
from pyvc import report

def scope_overridden(scope):
    from pyvc.symx import V
    return {k for k, v in scope.items() if isinstance(v, V)}

def memoiser(rep, name, relpath, qual, closure_name, keyed_by_id=False):
    from pyvc import funcmode, model as M, symx, discharge
    from pyvc.symx import Exec, St, VObj, VPy, VGhostMap, VExc, VStar, VBound, VInt
    import importlib
    mod = importlib.import_module(relpath[:-3].replace('/', '.'))
    deco = getattr(mod, qual)
    if keyed_by_id:
        def sample(self, arg): return None
    else:
        def sample(*args): return None
    wrapped = deco(sample)                       # the real closure object, built by the real decorator
    assert wrapped.__name__ == 'sample' and wrapped.__code__.co_name == closure_name, wrapped.__code__.co_name
    node = Exec.func_ast(Exec.__new__(Exec), wrapped)
    uni = M.Universe()
    import collections.abc as cabc
    for c in (cabc.Sized, cabc.Collection, cabc.Sequence, cabc.Iterable, tuple, TypeError, Exception, BaseException): uni.const(c)
    SENT = mod.SENTINEL
    # ---- abstract callee `func` under the precondition: deterministic, congruent for ==/hash (outcome is a function of the key class)
    f_returns = z3.Function('f_returns', M.Obj, z3.BoolSort()); f_res = z3.Function('f_res', M.Obj, M.Obj); f_exc = z3.Function('f_exc', M.Obj, M.Obj)
    f_returns2 = z3.Function('f_returns2', M.Obj, M.Obj, z3.BoolSort()); f_res2 = z3.Function('f_res2', M.Obj, M.Obj, M.Obj); f_exc2 = z3.Function('f_exc2', M.Obj, M.Obj, M.Obj)
    ARGS = z3.Const('args', M.Obj); SELF = z3.Const('self_or_cls', M.Obj); ARG = z3.Const('arg', M.Obj)
    def key_of_args(ex):   # what the closure computes as args_flat
        return z3.If(M.len_(ARGS) == 1, M.item(ARGS, 0), ARGS)
    def m_func(ex, s, f, args, kw, where):
        if keyed_by_id:
            a, b = ex.obj(args[0]), ex.obj(args[1]); ret, res, exc = f_returns2(a, b), f_res2(a, b), f_exc2(a, b)
        else:
            assert len(args) == 1 and isinstance(args[0], VStar)
            kc = M.eqc(key_of_args(ex)); ret, res, exc = f_returns(kc), f_res(kc), f_exc(kc)
        outs = []
        for s2, r in ex.fork(s.ev('call_func'), ret):
            if r: outs.append((s2, VObj(res)))
            else: ex.raised.append((s2, VObj(exc)))
        return outs
    scope = dict(mod.__dict__)
    D, E = VGhostMap('D'), VGhostMap('E')
    scope.update({'args_flat_to_return_value': D, 'args_flat_to_exception': E, 'args_flat_to_return_value_get': VBound(D, 'get'),
                  'args_flat_to_exception_get': VBound(E, 'get'), 'func': VPy(sample)})
    for nm, cell in zip(wrapped.__code__.co_freevars, wrapped.__closure__ or ()):
        try: cv = cell.cell_contents
        except ValueError: continue
        if isinstance(cv, dict) and nm not in scope_overridden(scope): scope[nm] = VGhostMap('X_' + nm)
    ex = Exec(uni, scope, call_model={sample: m_func}, name=name); ex.ghost_unhashable = True
    if keyed_by_id: env = {'self_or_cls': VObj(SELF), 'arg': VObj(ARG)}; pre = ()
    else: env = {'args': VObj(ARGS)}; pre = (M.inst(ARGS, uni.const(tuple)),)
    outs = [(k, s, v) for k, s, v in ex.exec_block(node.body, St(tuple(env.items()), pre))] + [('raise', s, v) for s, v in ex.raised]
    # ---- table invariant (assumed at entry, re-proved at every store): an entry is the memoised function's own outcome for that key class
    c = z3.Const('c', M.Obj); c2 = z3.Const('c2', M.Obj)
    axioms = uni.axioms()
    y = z3.Const('y_exc', M.Obj)
    axioms += [z3.ForAll([y], z3.Implies(M.inst(y, uni.const(BaseException)), M.truthy(y))),      # exception objects are truthy (no __bool__/__len__ on them: assumption)
               z3.Not(M.truthy(uni.const(None)))]
    if not keyed_by_id:
        Dh, Dg = ex.ghost_base('D', 1); Eh, Eg = ex.ghost_base('E', 1)
        axioms += [z3.ForAll([c], z3.Implies(Dh(c), z3.And(f_returns(c), Dg(c) == f_res(c)))), z3.ForAll([c], z3.Implies(Eh(c), z3.And(z3.Not(f_returns(c)), Eg(c) == f_exc(c)))),
                   z3.ForAll([c], z3.And(f_res(c) != uni.const(SENT), M.inst(f_exc(c), uni.const(Exception))))]
        kc = M.eqc(key_of_args(ex)); RET, RES, EXC = f_returns(kc), f_res(kc), f_exc(kc)
    else:
        # id-keyed table: an entry was stored for SOME pair of objects that had these ids when it was stored (ghost witnesses w1, w2);
        # ids are unique only among objects alive at the same time, so nothing identifies the witnesses with the present arguments
        Dh, Dg = ex.ghost_base('D', 2); Eh, Eg = ex.ghost_base('E', 2)
        w1 = z3.Function('stored_self', M.Obj, M.Obj, M.Obj); w2 = z3.Function('stored_arg', M.Obj, M.Obj, M.Obj)
        axioms += [z3.ForAll([c, c2], z3.Implies(Dh(c, c2), z3.And(f_returns2(w1(c, c2), w2(c, c2)), Dg(c, c2) == f_res2(w1(c, c2), w2(c, c2)),
                                                                    M.eqc(M.box_int(M.id_(w1(c, c2)))) == c, M.eqc(M.box_int(M.id_(w2(c, c2)))) == c2))),
                   z3.ForAll([c, c2], z3.Implies(Eh(c, c2), z3.And(z3.Not(f_returns2(w1(c, c2), w2(c, c2))), Eg(c, c2) == f_exc2(w1(c, c2), w2(c, c2)),
                                                                    M.eqc(M.box_int(M.id_(w1(c, c2)))) == c, M.eqc(M.box_int(M.id_(w2(c, c2)))) == c2))),
                   z3.ForAll([c, c2], z3.And(f_res2(c, c2) != uni.const(SENT), M.inst(f_exc2(c, c2), uni.const(Exception))))]
        # equal ints have equal classes and vice versa (int keys)
        i1, i2 = z3.Ints('i1 i2')
        axioms += [z3.ForAll([i1, i2], (M.eqc(M.box_int(i1)) == M.eqc(M.box_int(i2))) == (i1 == i2))]
        # ownership: does EVERY path that stores a result/exception under the id key also store the two objects themselves (strong
        # references) under that key?  Only then are the witnesses of existing entries still alive, and ids of live objects are unique.
        refs_held = True
        for kind_, s_, v_ in outs:
            sts = [e for e in s_.events if e[0] == 'ghost_store']
            de = [e for e in sts if e[1] in ('D', 'E')]
            holds = [e for e in sts if e[1].startswith('X_') and isinstance(e[3], symx.VTup) and any(isinstance(it, VObj) and it.t.eq(SELF) for it in e[3].items)
                     and any(isinstance(it, VObj) and it.t.eq(ARG) for it in e[3].items)]
            if de and not holds: refs_held = False
        rep.add(f'C14.{name}.inv.strong_refs_held_for_id_keys', 'proved' if refs_held else 'refuted', backend='structural',
                where='every table store under (id(self), id(arg)) is accompanied by a store of (self, arg) themselves, so a live entry keeps its objects alive and their ids cannot be reused',
                solver_output='store events of every symbolic path of the real closure', **({} if refs_held else replay_idkey()))
        alive = z3.Function('alive', M.Obj, z3.BoolSort()); a1, a2 = z3.Consts('a1 a2', M.Obj)
        axioms += [z3.ForAll([a1, a2], z3.Implies(z3.And(alive(a1), alive(a2), M.id_(a1) == M.id_(a2)), a1 == a2)), alive(SELF), alive(ARG)]
        if refs_held:
            axioms += [z3.ForAll([c, c2], z3.Implies(z3.Or(Dh(c, c2), Eh(c, c2)), z3.And(alive(w1(c, c2)), alive(w2(c, c2)))))]
        RET, RES, EXC = f_returns2(SELF, ARG), f_res2(SELF, ARG), f_exc2(SELF, ARG)
    prover = discharge.Prover(axioms)
    def add(nm, hyps, goal, where='', **kw):
        r = prover.prove(hyps, goal)
        rep.add(nm, r.status, time=r.time, backend=r.backend, where=where, solver_output=f'{r.backend}: {r.status}', **kw); return r
    for ob in ex.obls: add(f'C14.{name}.{ob.kind}#{ob.name.rsplit(".", 1)[-1]}', list(ob.pc), ob.goal, ob.where)
    for pi, (kind, s, v) in enumerate(outs):
        pc = list(s.pc); evs = list(s.events); tag = f'path{pi}'
        unh = any(e[0] == 'unhashable_key' for e in evs)
        extra = {}
        if keyed_by_id: extra = replay_idkey()
        if kind == 'return':
            add(f'C14.{name}.post.transparent.return.{tag}', pc, z3.And(RET, ex.obj(v) == RES), 'a returned value is what the memoised function returns for these arguments', **extra)
        elif kind == 'raise':
            add(f'C14.{name}.post.transparent.raise.{tag}', pc, z3.And(z3.Not(RET), ex.obj(v) == EXC), 'a raised exception is what the memoised function raises for these arguments', **extra)
        else: rep.add(f'C14.{name}.post.completion.{tag}', 'refuted', backend='structural', where=f'unexpected completion {kind}')
        stores = [e for e in evs if e[0] == 'ghost_store']
        for si, st_ in enumerate(stores):
            _, gname, kcs, val, key = st_
            if gname == 'D': add(f'C14.{name}.inv.store_result.{tag}.{si}', pc, z3.And(RET, ex.obj(val) == RES), 'only the function result is stored, under this key')
            elif gname == 'E': add(f'C14.{name}.inv.store_exception.{tag}.{si}', pc, z3.And(z3.Not(RET), ex.obj(val) == EXC), 'only the raised exception is stored, under this key')
        if unh:
            # C11 clause: an unhashable argument yields func's own outcome, never the memoiser's TypeError, and stores nothing
            rep.add(f'C14.{name}.post.unhashable_stores_nothing.{tag}', 'proved' if not stores else 'refuted', backend='structural', where='no table store on the unhashable path')
    return len(outs)

_IDK = {}
def replay_idkey():
    if 'r' in _IDK: return _IDK['r']
    import subprocess
    from pyvc import REPO
    src = f'''
import sys, gc; sys.path.insert(0, {REPO!r})
from beartype.door import TypeHint
from typing import Annotated
# TypeHints of UNHASHABLE hints are not singletons: they die, and their id() is reused by later wrappers
T_int = TypeHint(int)          # hashable hint: a singleton that stays alive, so its id is stable
stale = 0
for i in range(2000):
    a = TypeHint(Annotated[int, []]); r1 = a.is_subhint(T_int); del a     # True; the wrapper dies
    b = TypeHint(Annotated[str, []]); r2 = b.is_subhint(T_int); del b     # must be False; b often reuses a's id()
    if r1 is not True or r2 is not False: stale += 1
print("stale answers:", stale)
sys.exit(1 if stale else 0)
'''
    p = subprocess.run([sys.executable, '-c', src], capture_output=True, text=True, timeout=120)
    rp = dict(kind='C14', reproduced=p.returncode == 1, tried=[dict(out=(p.stdout + p.stderr).strip()[-300:])], detail=f'TypeHint(unhashable hint).is_subhint(...) repeated with short-lived wrappers: {p.stdout.strip()[-100:]}')
    _IDK['r'] = dict(replay=rp, replay_script=src if p.returncode == 1 else None)
    return _IDK['r']

def cache_unbounded(rep):
    from pyvc import funcmode, model as M, discharge
    from pyvc.symx import Exec, St, VObj, VPy, VGhostMap, VBound, VExc
    import beartype._util.cache.map.utilmapunbounded as mod
    uni = M.Universe()
    for c in (TypeError, Exception, BaseException): uni.const(c)
    for meth in ('cache_or_get_cached_func_return_passed_arg', 'cache_or_get_cached_value'):
        fobj, node, _ = funcmode.load('beartype/_util/cache/map/utilmapunbounded.py', f'CacheUnboundedStrong.{meth}')
        T = VGhostMap('T'); SELF = z3.Const('self', M.Obj); KEY = z3.Const('key', M.Obj); ARG = z3.Const('arg', M.Obj); VAL = z3.Const('value', M.Obj)
        fac_res = z3.Function('factory_res', M.Obj, M.Obj)
        class SelfV(VObj): pass
        fac_returns = z3.Function('factory_returns', M.Obj, z3.BoolSort())
        def m_factory(ex, s, f, args, kw, where):
            # precondition: the factory is deterministic (its outcome is a function of its argument)
            outs = []
            for s2, r in ex.fork(s.ev('factory_called'), fac_returns(ex.obj(args[0]))):
                if r: outs.append((s2, VObj(fac_res(ex.obj(args[0])))))
                else: ex.raised.append((s2.ev('factory_raised'), VObj(z3.Const('factory_exc', M.Obj))))
            return outs
        FACT = lambda x: None
        ex = Exec(uni, dict(mod.__dict__), call_model={FACT: m_factory}, name=meth); ex.ghost_unhashable = True; ex.fields_mode = False
        # self._key_to_value_get / _set are the table's bound dict.get / dict.__setitem__ (set in __init__: checked structurally below)
        def m_selfattr(ex_, s, b, name):
            return None
        env = {'self': VPy(_SelfStub(T)), 'key': VObj(KEY), 'arg': VObj(ARG), 'value_factory': VPy(FACT), 'value': VObj(VAL), '_SENTINEL': VPy(mod.SENTINEL)}
        env = {k: v for k, v in env.items() if k in [a.arg for a in node.args.args]}
        ex.call_model[('attr', '_key_to_value_get')] = None
        outs = run_with_selfstub(ex, node, env, T)
        axioms = uni.axioms()
        Th, Tg = ex.ghost_base('T', 1); c = z3.Const('c', M.Obj)
        axioms += [z3.ForAll([c], Tg(c) != uni.const(mod.SENTINEL)), z3.ForAll([c], fac_res(c) != uni.const(mod.SENTINEL))]
        prover = discharge.Prover(axioms)
        for ob in ex.obls:
            r = prover.prove(list(ob.pc), ob.goal); rep.add(f'C14.{meth}.{ob.kind}#{ob.name.rsplit(".", 1)[-1]}', r.status, time=r.time, backend=r.backend, where=ob.where)
        for pi, (kind, s, v) in enumerate(outs):
            pc = list(s.pc); evs = list(s.events); tag = f'path{pi}'
            stores = [e for e in evs if e[0] == 'ghost_store']; unh = any(e[0] == 'unhashable_key' for e in evs)
            calls = sum(1 for e in evs if e[0] == 'factory_called')
            present0, val0 = Th(M.eqc(KEY)), Tg(M.eqc(KEY))
            newv = fac_res(ARG) if 'func_return' in meth else VAL
            if kind == 'return' and not unh:
                r = prover.prove(pc, z3.If(present0, ex.obj(v) == val0, ex.obj(v) == newv)); rep.add(f'C14.{meth}.post.returns_cached_or_new.{tag}', r.status, time=r.time, backend=r.backend)
                r = prover.prove(pc, z3.BoolVal(len(stores) == 0) == present0); rep.add(f'C14.{meth}.post.stores_iff_absent.{tag}', r.status, time=r.time, backend=r.backend)
                for st_ in stores:
                    r = prover.prove(pc, z3.And(st_[2][0] == M.eqc(KEY), ex.obj(st_[3]) == newv)); rep.add(f'C14.{meth}.post.stores_new_under_key.{tag}', r.status, time=r.time, backend=r.backend)
            elif kind == 'return' and unh:
                ok = not stores and 'func_return' in meth
                r = prover.prove(pc, ex.obj(v) == newv); rep.add(f'C14.{meth}.post.unhashable_returns_factory_value.{tag}', r.status if ok else 'refuted', time=r.time, backend=r.backend)
            elif kind == 'raise':
                # only the factory's own exception (propagated unchanged) or - for the value variant - the dict's TypeError; nothing stored
                isfac = isinstance(v, VObj) and v.t.eq(z3.Const('factory_exc', M.Obj))
                rep.add(f'C14.{meth}.post.raise_stores_nothing.{tag}', 'proved' if (not stores and (isfac or 'func_return' not in meth)) else 'refuted', backend='structural', where=f'raises {v}')

class _SelfStub:
    """stands for `self` of CacheUnboundedStrong: _lock is a context manager, _key_to_value_get/_set are the table's bound methods"""
    def __init__(self, T): self.T = T

def run_with_selfstub(ex, node, env, T):
    from pyvc.symx import St, VPy, VBound, VObj, V
    import pyvc.symx as SX
    orig = ex.getattr_
    def getattr_(s, b, name):
        if isinstance(b, VPy) and isinstance(b.o, _SelfStub):
            if name == '_key_to_value_get': return [(s, VBound(T, 'get'))]
            if name == '_key_to_value_set': return [(s, VBound(T, '__setitem__'))]
            if name == '_lock': return [(s, VObj(SX.M.fresh('lock')))]
        return orig(s, b, name)
    ex.getattr_ = getattr_
    origcm = ex.call_method
    def call_method(s, f, args, kwargs, where):
        if isinstance(f.self_, SX.VGhostMap) and f.name == '__setitem__':
            try: return [(ex.setitem(s, f.self_, args[0], args[1], where), VPy(None))]
            except SX._AllRaised: return []
        return origcm(s, f, args, kwargs, where)
    ex.call_method = call_method
    outs = [(k, s, v) for k, s, v in ex.exec_block(node.body, St(tuple(env.items())))]
    return outs + [('raise', s, v) for s, v in ex.raised]

HINT_KEYED = {   # tables the property lists: keyed by hints / types, hence stale after a same-named class is redefined
    'beartype/door/_cls/doormeta.py': ['_HINT_TO_WRAPPER'],
    'beartype/door/_func/doorfunc.py': ['_HINT_CONF_EXCEPTION_PREFIX_TO_FUNC_RAISER', '_HINT_CONF_EXCEPTION_PREFIX_TO_FUNC_TESTER'],
    'beartype/_check/code/codemain.py': ['_HINT_CONF_TO_CHECK_EXPR'],
    'beartype/_check/code/codescope.py': ['_tuple_union_to_tuple_union'],
    'beartype/_check/convert/_convcoerce.py': ['_hint_repr_to_hint'],
    'beartype/_check/forward/reference/_cls/fwdrefmeta.py': ['_ref_proxy_to_resolved_hint', '_ref_proxy_to_resolved_type'],
    'beartype/_check/cls/hint/hintsane.py': ['_HINT_TO_HINTSANE'],
}
NOT_HINT_KEYED = {   # run-time-filled module tables reviewed as NOT needing a clear (reason recorded)
    'HINT_SIGN_PEP484585_CONTAINER_TO_LOGIC': 'static registry filled once at import', 'HINT_SIGN_TO_GET_CAUSE_FUNC': 'static registry filled once at import',
    'HINTS_PEP484_REPR_PREFIX_DEPRECATED': 'static registry filled once at import', '_beartype_conf_args_to_conf': 'keyed by option values, not by hints (C17)',
    '_bear_conf_to_decor': 'keyed by configurations only', '_PACKAGE_NAME_TO_TRIE_BLACKLISTED': 'claw registry (C06), keyed by package names',
    '_MODULE_NAME_TO_ATTR_NAME_TO_VALUE': 'cleared through clear_object_attr_caches()',
}
def structural(rep):
    from pyvc import REPO, funcmode
    fobj, node, _ = funcmode.load('beartype/_util/cache/utilcacheclear.py', 'clear_caches')
    cleared = {x.func.value.id for x in ast.walk(node) if isinstance(x, ast.Call) and isinstance(x.func, ast.Attribute) and x.func.attr == 'clear' and isinstance(x.func.value, ast.Name)}
    imported = {}
    for x in ast.walk(node):
        if isinstance(x, ast.ImportFrom):
            for a in x.names: imported[a.asname or a.name] = x.module
    calls = {x.func.id for x in ast.walk(node) if isinstance(x, ast.Call) and isinstance(x.func, ast.Name)}
    for path, names in HINT_KEYED.items():
        modname = path[:-3].replace('/', '.')
        for nm in names:
            ok = nm in cleared and imported.get(nm) == modname
            rep.add(f'C14.clear_caches.covers.{nm}', 'proved' if ok else 'refuted', backend='structural', where=f'{nm}.clear() in clear_caches, imported from {modname}',
                    solver_output='resolved on the real AST of clear_caches()')
    rep.add('C14.clear_caches.covers.object_attr_caches', 'proved' if 'clear_object_attr_caches' in calls else 'refuted', backend='structural')
    # every run-time-filled module-level table in the tree is either cleared or reviewed
    found = discover_tables(REPO)
    known = {n for ns in HINT_KEYED.values() for n in ns} | set(NOT_HINT_KEYED)
    for p, nm in found:
        ok = nm in known
        rep.add(f'C14.tables.reviewed.{nm}', 'proved' if ok else 'refuted', backend='structural',
                where=f'{p}: run-time-filled module table ' + ('(reviewed: ' + NOT_HINT_KEYED.get(nm, 'cleared by clear_caches') + ')' if ok else 'is neither cleared by clear_caches() nor reviewed in the sidecar'))
    # _uncache_beartype_if_type_redefined calls clear_caches on a same-module same-name redefinition (function mode below)

def discover_tables(REPO):
    tables = []
    for root, ds, fs in os.walk(os.path.join(REPO, 'beartype')):
        for f in fs:
            if not f.endswith('.py'): continue
            p = os.path.join(root, f)
            try: t = ast.parse(open(p).read())
            except Exception: continue
            names = {}
            for n in t.body:
                tgt = val = None
                if isinstance(n, ast.AnnAssign) and isinstance(n.target, ast.Name) and n.value is not None: tgt, val = n.target.id, n.value
                elif isinstance(n, ast.Assign) and len(n.targets) == 1 and isinstance(n.targets[0], ast.Name): tgt, val = n.targets[0].id, n.value
                if tgt is None: continue
                if (isinstance(val, ast.Dict) and not val.keys) or (isinstance(val, ast.Call) and isinstance(val.func, ast.Name) and val.func.id in ('dict', 'defaultdict', 'CacheUnboundedStrong', 'CacheLruStrong', 'set', 'WeakKeyDictionary', 'WeakValueDictionary')):
                    names[tgt] = n.lineno
            if not names: continue
            filled = set()
            for fn in ast.walk(t):
                if isinstance(fn, (ast.FunctionDef, ast.AsyncFunctionDef)):
                    for x in ast.walk(fn):
                        if isinstance(x, ast.Subscript) and isinstance(x.ctx, ast.Store) and isinstance(x.value, ast.Name) and x.value.id in names: filled.add(x.value.id)
                        if isinstance(x, ast.Call) and isinstance(x.func, ast.Attribute) and isinstance(x.func.value, ast.Name) and x.func.value.id in names and x.func.attr in ('add', 'setdefault', 'update', 'cache_or_get_cached_value', 'cache_or_get_cached_func_return_passed_arg', '__setitem__'): filled.add(x.func.value.id)
            tables += [(os.path.relpath(p, REPO), nm) for nm in names if nm in filled]
    return sorted(tables)

def redefinition(rep):
    """_uncache_beartype_if_type_redefined: a second decoration of a same-module same-name class calls clear_caches(), EVERY time"""
    from pyvc import funcmode, model as M, discharge
    from pyvc.symx import Exec, St, VObj, VPy, VGhostMap
    import beartype._decor._type.decortype as mod
    fobj, node, _ = funcmode.load('beartype/_decor/_type/decortype.py', '_uncache_beartype_if_type_redefined')
    src = ast.unparse(node)
    rep.extra['uncache_src'] = src[:1500]
    # bounded run-time contract on the real function (the body manipulates a dict of sets: outside the function-mode subset)
    import types as _t
    calls = []
    saved = mod.clear_caches; table = mod._BEARTYPED_MODULE_TO_TYPE_NAME; snapshot = {k: set(v) for k, v in table.items()}
    mod.clear_caches = lambda: calls.append(1)
    try:
        table.clear(); bad = []
        cases = 0
        for names in (['A'], ['A', 'A'], ['A', 'A', 'A', 'A', 'A'], ['A', 'B', 'A', 'B', 'A'], ['A', 'B', 'B', 'A', 'A', 'B']):
            table.clear(); seen = set(); del calls[:]
            for i, nm in enumerate(names):
                cls = type(nm, (), {'__module__': 'verif_mod'}); before = len(calls)
                mod._uncache_beartype_if_type_redefined(cls); cases += 1
                want = nm in seen          # a redefinition of a name decorated before (since the last clearing) must clear
                got = len(calls) > before
                if want != got: bad.append((names, i, nm, want, got))
                seen = {nm} if got else seen | {nm}
        rep.bounded.append(dict(kind='run-time contract on the real _uncache_beartype_if_type_redefined (bounded stand-in, not counted as proved)', histories=6, calls=cases, failures=len(bad)))
        if bad:
            rep.add('C14.uncache_if_redefined.bounded', 'refuted', backend='runtime-contract', where=f'history {bad[0][0]} step {bad[0][1]}: redefinition of {bad[0][2]!r} expected clear={bad[0][3]} got {bad[0][4]}',
                    solver_output='bounded run-time contract (not a proof)', replay=dict(reproduced=True, detail=str(bad[0])),
                    replay_script='print(%r); sys.exit(1)\n' % (str(bad[:3]),))
    finally:
        mod.clear_caches = saved; table.clear(); table.update(snapshot)

def cacheable_flag(rep):
    """HintTreeCode.sanify_hint_child: the tree is cacheable only if EVERY sanified child is (the flag can only go down)"""
    from pyvc import funcmode, model as M, discharge
    from pyvc.symx import Exec, St, VObj, VPy
    import beartype._check.cls.hint.tree.hinttreecode as mod
    fobj, node, _ = funcmode.load('beartype/_check/cls/hint/tree/hinttreecode.py', 'HintTreeCode.sanify_hint_child')
    uni = M.Universe()
    SELF = z3.Const('self', M.Obj); CHILD = z3.Const('hint_child_insane', M.Obj); SANE = z3.Const('hint_child_sane', M.Obj)
    def m_san(ex, s, f, a, kw, w): return [(s.ev('sanify', dict(kw)), VObj(SANE))]
    ex = Exec(uni, dict(mod.__dict__), call_model={mod.sanify_hint_child: m_san}, name='sanify_hint_child'); ex.fields_mode = True
    F = lambda n: z3.Const(f'H_{n}', z3.ArraySort(M.Obj, M.Obj))
    old_flag = M.truthy(z3.Select(F('is_check_expr_cacheable'), SELF)); child_flag = M.truthy(z3.Select(F('is_check_expr_cacheable'), SANE))
    outs = ex.run_function(node, St(), (VObj(SELF), VObj(CHILD)), {}, fobj)
    pr = discharge.Prover(uni.axioms() + [z3.ForAll([z3.Const('b_', z3.BoolSort())], M.truthy(M.box_bool(z3.Const('b_', z3.BoolSort()))) == z3.Const('b_', z3.BoolSort()))])
    for i, (s, v) in enumerate(outs):
        new_flag = M.truthy(z3.Select(ex.field(s, 'is_check_expr_cacheable'), SELF))
        r = pr.prove(list(s.pc), new_flag == z3.And(old_flag, child_flag))
        rep.add(f'C14.sanify_hint_child.post.cacheable_is_conjunction.path{i}', r.status, time=r.time, backend=r.backend,
                where='after sanifying a child the tree is cacheable iff it was cacheable before AND this child is: a scope-relative (uncacheable) child is never forgotten, whatever is sanified after it')
        rep.add(f'C14.sanify_hint_child.post.returns_callee_result.path{i}', 'proved' if (isinstance(v, VObj) and v.t.eq(SANE)) else 'refuted', backend='structural')

def forward_refs(rep):
    """bounded scenario (run-time contract): an unresolved forward reference is not remembered as failing"""
    import subprocess
    from pyvc import REPO
    src = f'''
import sys; sys.path.insert(0, {REPO!r})
from beartype import beartype
from beartype.door import is_bearable
from beartype.roar import BeartypeCallHintForwardRefException, BeartypeException
@beartype
def f(x: "Later") -> "list[Later]": return [x]
bad = []
for attempt in range(2):
    try: f(1); bad.append("call succeeded before Later was defined")
    except BeartypeCallHintForwardRefException: pass
    except BeartypeException as e: bad.append(f"unexpected {{type(e).__name__}}")
class Later: pass
try:
    r = f(Later())
    if not isinstance(r[0], Later): bad.append("wrong result")
except Exception as e: bad.append(f"after defining Later: {{type(e).__name__}}: {{e}}"[:200])
try:
    f(1); bad.append("f(1) accepted although 1 is not a Later")
except BeartypeException: pass
# a name that IS defined but is not (yet) a hint: the failure is not remembered either, and is the same failure each time
import types
m = types.ModuleType("c14_placeholder_mod"); sys.modules[m.__name__] = m
m.Thing = 0xBEEF
def mk():
    @beartype
    def g(x: "c14_placeholder_mod.Thing") -> None: return None
    return g
g_early, g_late = mk(), mk()
seen = []
for attempt in range(2):
    try: g_early(1); seen.append("accepted")
    except BeartypeException as e: seen.append(type(e).__name__)
if len(set(seen)) != 1: bad.append(f"the same failing query answered differently: {{seen}}")
class Thing: pass
m.Thing = Thing
for name, g in (("queried before the rebinding", g_early), ("never queried", g_late)):
    try: g(Thing())
    except Exception as e: bad.append(f"{{name}}: {{type(e).__name__}} after the name was bound to a class")
print(bad); sys.exit(1 if bad else 0)
'''
    p = subprocess.run([sys.executable, '-c', src], capture_output=True, text=True, timeout=120)
    ok = p.returncode == 0
    rep.bounded.append(dict(kind='forward-reference scenario: fails twice while undefined, works without re-decoration once defined (bounded run-time contract)', cases=1, failing=0 if ok else 1))
    if not ok:
        rep.add('C14.forward_ref.not_remembered_as_failing', 'refuted', backend='runtime-contract', where=(p.stdout + p.stderr)[-300:], solver_output='bounded run-time contract (not a proof)',
                replay=dict(reproduced=True, detail=p.stdout.strip()[-200:]), replay_script=src)

def fwdref_cache(rep, prefix='C14'):
    """forward-reference proxies memoise their referent in two module tables.  Validated-cache discipline, function mode on the real
    property getters of BeartypeForwardRefMeta: (i) a value is left in the table only if the getter returns it normally and it has passed
    the getter's own validation (is_hint / isinstanceable): a later query answered from the table is then the answer a first-time query
    gives; (ii) a getter that raises leaves nothing behind (a referent that failed once is not remembered)."""
    from pyvc import funcmode, model as M, discharge, symx
    from pyvc.symx import Exec, St, VObj, VPy, VBool
    import beartype._check.forward.reference._cls.fwdrefmeta as mod
    from beartype.roar import BeartypeCallHintForwardRefException
    uni = M.Universe(); uni.const(BeartypeCallHintForwardRefException)
    CLS = z3.Const('proxy', M.Obj); CACHED = z3.Const('cached', M.Obj); NONE = uni.const(None)
    for qual, getname, storename, uncachename, validname, diename, argname in (
            ('BeartypeForwardRefMeta.__resolved_hint_beartype__', '_ref_proxy_to_resolved_hint_get', '_cache_ref_proxy_referent_hint', '_uncache_ref_proxy_referent_hint', 'is_hint', 'die_unless_hint', 'hint'),
            ('BeartypeForwardRefMeta.__resolved_type_beartype__', '_ref_proxy_to_resolved_type_get', '_cache_ref_proxy_referent_type', None, 'is_object_isinstanceable', 'die_unless_object_isinstanceable', 'obj')):
        short = qual.split('.')[-1].strip('_')
        fobj, node, _ = funcmode.load('beartype/_check/forward/reference/_cls/fwdrefmeta.py', qual)
        valid = z3.Function('valid_' + short, M.Obj, z3.BoolSort()); hit = z3.Bool('table_hit_' + short)
        def m_get(ex, s, f, a, kw, w): return [(s2, VObj(CACHED) if b else VPy(None)) for s2, b in ex.fork(s, hit)]
        def m_store(ex, s, f, a, kw, w):
            kw = dict(kw); x = ex.obj(kw.get('referent_hint', kw.get('referent_type', a[1] if len(a) > 1 else None)))
            return [(s.ev('store', x), VPy(None))]
        def m_unc(ex, s, f, a, kw, w): return [(s.ev('uncache'), VPy(None))]
        def m_valid(ex, s, f, a, kw, w): return [(s, VBool(valid(ex.obj(a[0]))))]
        def m_die(ex, s, f, a, kw, w):
            kw = dict(kw); x = ex.obj(kw[argname] if argname in kw else a[0]); outs = []
            for s2, ok in ex.fork(s, valid(x)):
                if ok: outs.append((s2, VPy(None)))
                else: ex.raised.append((s2.ev('validation_raised'), symx.VExc(BeartypeCallHintForwardRefException, ())))
            return outs
        def m_fresh(tag): return lambda ex, s, f, a, kw, w: [(s, VObj(M.fresh(tag)))]
        def m_bool(tag): return lambda ex, s, f, a, kw, w: [(s, VBool(M.fresh(tag, z3.BoolSort())))]
        cm = {getattr(mod, getname): m_get, getattr(mod, storename): m_store, getattr(mod, validname): m_valid, getattr(mod, diename): m_die, mod._make_ref_proxy_exception_prefix: m_fresh('prefix')}
        if uncachename and hasattr(mod, uncachename): cm[getattr(mod, uncachename)] = m_unc      # absent helper: nothing can undo a store
        for nm in ('resolve_hint_pep484749_ref_object', '_resolve_hint_pep484_ref_str', 'get_hint_pep484585_generic_unsubbed_type'):
            if hasattr(mod, nm): cm[getattr(mod, nm)] = m_fresh(nm)
        if hasattr(mod, 'is_hint_pep484585_generic'): cm[mod.is_hint_pep484585_generic] = m_bool('is_generic')
        ex = Exec(uni, dict(mod.__dict__), call_model=cm, name=short); ex.fields_mode = True
        outs = ex.run_function(node, St((), (CACHED != NONE, valid(CACHED))), (VObj(CLS),), {}, fobj)       # table invariant assumed at entry: what is cached is valid
        pr = discharge.Prover(uni.axioms())
        n = 0
        def net(events):
            cur = None
            for e in events:
                if e[0] == 'store': cur = e[1]
                elif e[0] == 'uncache': cur = None
            return cur
        for i, (s_, v) in enumerate(outs):
            n += 1; left = net(s_.events)
            if left is None:
                r = pr.prove(list(s_.pc), z3.Or(z3.And(hit, ex.obj(v) == CACHED), z3.Not(hit)))
                rep.add(f'{prefix}.fwdref.{short}.post.returns_cached_on_hit.path{i}', r.status, time=r.time, backend=r.backend)
            else:
                r = pr.prove(list(s_.pc), z3.And(left == ex.obj(v), valid(left)))
                rep.add(f'{prefix}.fwdref.{short}.post.stores_only_the_validated_result.path{i}', r.status, time=r.time, backend=r.backend, reason=r.reason,
                        where='the value left in the table is the value returned and has passed validation (table invariant re-established)')
        for i, (s_, v) in enumerate(ex.raised):
            n += 1; left = net(s_.events)
            rep.add(f'{prefix}.fwdref.{short}.post.raise_leaves_nothing_cached.path{i}', 'proved' if left is None else 'refuted', backend='structural',
                    where=f'a getter that raises ({getattr(v, "cls", v)}) leaves no referent behind: a later query must validate (and fail) again, not be answered from the table')
        if not n: rep.error(f'{prefix}.fwdref.{short}: no path')

ABCREG_SRC = """
import abc, sys
from beartype.door import is_subhint, is_bearable, TypeHint
def world():
    class Abc(abc.ABC): pass
    class Impl: pass
    return Abc, Impl
A1, I1 = world(); A2, I2 = world()
early = is_subhint(I1, A1)                 # asked BEFORE the registration (False: not yet a virtual subclass)
A1.register(I1); A2.register(I2)
later_asked_before = is_subhint(I1, A1)   # the same question again
later_fresh = is_subhint(I2, A2)          # the same question about an identical, never-queried twin
print('before registration:', early, '; after, asked before:', later_asked_before, '; after, never asked:', later_fresh, '; issubclass:', issubclass(I1, A1), '; is_bearable:', is_bearable(I1(), A1))
bad = later_asked_before != later_fresh
bad |= (TypeHint(list[I1]) <= TypeHint(list[A1])) != (TypeHint(list[I2]) <= TypeHint(list[A2]))
sys.exit(1 if bad else 0)
"""
def abc_register(rep):
    """bounded history (NOT counted as proved): an is_subhint / TypeHint comparison asked once is not remembered across a change of the
    class graph (ABC registration): the same question about a never-queried identical twin must get the same answer"""
    import subprocess, sys, os
    from pyvc import REPO
    env = dict(os.environ); env['PYTHONPATH'] = REPO
    p = subprocess.run([sys.executable, '-c', ABCREG_SRC], capture_output=True, text=True, timeout=120, env=env, cwd='/')
    if p.returncode not in (0, 1): rep.error('C14 abc_register harness: ' + (p.stdout + p.stderr)[-600:]); return
    if p.returncode == 1:
        rep.add('C14.history.is_subhint_across_abc_registration', 'refuted', backend='runtime-contract', where=p.stdout.strip()[-300:], solver_output='bounded run-time contract in a fresh interpreter (not a proof)',
                replay=dict(reproduced=True, detail=p.stdout.strip()[-300:]), replay_script=f"import subprocess\nenv = dict(os.environ); env['PYTHONPATH'] = {REPO!r}\np = subprocess.run([sys.executable, '-c', {ABCREG_SRC!r}], env=env, cwd='/')\nsys.exit(p.returncode)\n")
    rep.bounded.append(dict(kind='is_subhint asked before / after an ABC registration vs a never-queried twin (bounded stand-in, NOT counted as proved)', scenarios=2, failing=int(p.returncode == 1)))

DOORKEY_SRC = """
import sys
from typing import TypeVar, Annotated
from beartype.door import is_subhint, TypeHint, is_bearable
from beartype.vale import Is
bad = []
def make(base):
    class Widget(base): pass
    return Widget
def worlds():
    IntW, StrW = make(int), make(str)                                   # two classes with ONE repr
    yield 'classes of one factory', IntW, StrW, int, IntW(1), StrW('a')
    T1, T2 = TypeVar('T', bound=int), TypeVar('T', bound=str)           # two type variables with ONE repr
    yield 'type variables of one name', T1, T2, int, 1, 'a'
    ge = lambda k: Annotated[int, Is[lambda x: x >= k]]
    yield 'validators closing over different values', ge(0), ge(10), None, 5, None
for label, first, second, sup, o1, o2 in worlds():
    a1 = is_subhint(first, sup) if sup is not None else None; w1 = TypeHint(first)      # the older look-alike is asked first
    a2 = is_subhint(second, sup) if sup is not None else None; w2 = TypeHint(second)
    if w1 is w2: bad.append(f'{label}: TypeHint() of two DIFFERENT hints with the same repr is one wrapper')
    if w2.hint is not second: bad.append(f'{label}: TypeHint(second).hint is not the hint that was passed')
    if sup is not None and (a1, a2) != (True, False): bad.append(f'{label}: is_subhint gave {(a1, a2)} for (first <= {sup.__name__}, second <= {sup.__name__}); expected (True, False)')
    if w2.is_bearable(o1) != is_bearable(o1, second): bad.append(f'{label}: TypeHint(second).is_bearable answers for the other hint')
print(bad[:3]); sys.exit(1 if bad else 0)
"""
def door_cache(rep):
    """the TypeHint wrapper table: (S) its key is the hint itself and the wrapper is built from that same hint (a key that does not determine the
    hint - repr(), id() of a collectable object - makes TypeHint / is_subhint answer for a look-alike asked about earlier);
    (b) history scenario with look-alike hints in a fresh interpreter"""
    import subprocess
    from pyvc import funcmode, REPO
    fobj, node, _ = funcmode.load('beartype/door/_cls/doormeta.py', '_TypeHintMetaclass.__call__')
    params = [a.arg for a in node.args.args]
    hint_name = params[1] if len(params) > 1 else 'hint'
    stores = [a for a in ast.walk(node) if isinstance(a, (ast.Assign, ast.AugAssign, ast.NamedExpr)) and any(isinstance(t, ast.Name) and t.id == hint_name for t in ast.walk(a.targets[0] if isinstance(a, ast.Assign) else a.target))]
    calls = [c for c in ast.walk(node) if isinstance(c, ast.Call) and isinstance(c.func, ast.Attribute) and c.func.attr in ('cache_or_get_cached_func_return_passed_arg', 'cache_or_get_cached_value')]
    ok = len(calls) == 1 and not stores
    if ok:
        kw = {k.arg: k.value for k in calls[0].keywords}
        ok = isinstance(kw.get('key'), ast.Name) and kw['key'].id == hint_name and (('arg' not in kw) or (isinstance(kw['arg'], ast.Name) and kw['arg'].id == hint_name))
    rep.add('C14.TypeHint.table_key_is_the_hint', 'proved' if ok else 'refuted', backend='structural',
            where=f'_TypeHintMetaclass.__call__ memoises the wrapper under key=<the hint passed> ' + ('(and builds it from that hint)' if ok else f'- NOT so: key expression is {ast.unparse(dict((k.arg, k.value) for k in calls[0].keywords).get("key")) if calls else "?"}'))
    env = dict(os.environ); env['PYTHONPATH'] = REPO
    p = subprocess.run([sys.executable, '-c', DOORKEY_SRC], capture_output=True, text=True, timeout=120, env=env, cwd='/')
    if p.returncode not in (0, 1) or (p.returncode == 1 and not p.stdout.strip().startswith('[')): rep.error('C14 door_cache harness: ' + (p.stdout + p.stderr)[-600:]); return
    if p.returncode == 1:
        rep.add('C14.history.typehint_after_a_lookalike_hint', 'refuted', backend='runtime-contract', bounded=True, where=p.stdout.strip()[-400:], solver_output='bounded run-time contract in a fresh interpreter (not a proof)',
                replay=dict(reproduced=True, detail=p.stdout.strip()[-300:]), replay_script=f"import subprocess\nenv = dict(os.environ); env['PYTHONPATH'] = os.environ.get('VERIF_REPO', {REPO!r})\np = subprocess.run([sys.executable, '-c', {DOORKEY_SRC!r}], env=env, cwd='/')\nsys.exit(p.returncode)\n")
    rep.bounded.append(dict(kind='TypeHint / is_subhint asked about a hint after a look-alike (same repr) hint (bounded stand-in, NOT counted as proved)', scenarios=3, failing=int(p.returncode == 1)))

EXPRKEY_SRC = """
import sys
from typing import TypeVar, Generic
from beartype import beartype
from beartype.door import is_bearable, die_if_unbearable
from beartype.roar import BeartypeException
from beartype._util.cache.utilcacheclear import clear_caches
T = TypeVar('T')
bad = []
def world():
    class Box(list[T]): pass
    return Box
# the answer for one subscription of a user generic does not depend on which OTHER subscription (or the bare class) was asked about before
for first in ('int', 'str', 'bare', 'none'):
    Box = world()
    {'int': lambda: is_bearable(Box([1]), Box[int]), 'str': lambda: is_bearable(Box(['a']), Box[str]), 'bare': lambda: is_bearable(Box([1]), Box), 'none': lambda: None}[first]()
    got = (is_bearable(Box(['a']), Box[str]), is_bearable(Box(['a']), Box[int]), is_bearable(Box([1]), Box[int]), is_bearable(Box([object()]), Box))
    if got != (True, False, True, True): bad.append(f'after asking about Box[{first}] first: (Box(strs) vs Box[str], Box(strs) vs Box[int], Box(ints) vs Box[int], Box(any) vs Box) = {got}, expected (True, False, True, True)')
    @beartype
    def strict(b: Box[int]) -> None: return None
    try: strict(Box(['a'])); bad.append(f'after Box[{first}]: a decorated parameter Box[int] accepted a Box of strings')
    except BeartypeException: pass
print(bad[:3]); sys.exit(1 if bad else 0)
"""
def expr_cache(rep):
    """the generated-check cache `_HINT_CONF_TO_CHECK_EXPR`: (S) it is keyed by the WHOLE reduced-hint metadata (`hint_sane`: the hint AND what its
    reduction recorded, e.g. the type-variable bindings of a subscripted generic) and the configuration - two subscriptions of one generic reduce to
    the same `.hint`; (b) history scenario over subscriptions of a user generic"""
    import subprocess
    from pyvc import funcmode, REPO
    fobj, node, _ = funcmode.load('beartype/_check/code/codemain.py', 'make_check_expr')
    keys = [a for a in ast.walk(node) if isinstance(a, ast.Assign) and any(isinstance(t, ast.Name) and t.id == 'CACHE_KEY' for t in a.targets)]
    params = [a.arg for a in node.args.args]
    def is_param(e, names): return isinstance(e, ast.Name) and e.id in names
    ok = bool(keys) and all(isinstance(k.value, ast.Tuple) and len(k.value.elts) == 2 and is_param(k.value.elts[0], ('hint_sane',)) and is_param(k.value.elts[1], ('conf',)) and 'hint_sane' in params and 'conf' in params for k in keys)
    uses = [c for c in ast.walk(node) if isinstance(c, (ast.Subscript, ast.Call)) and any(isinstance(x, ast.Name) and x.id in ('_HINT_CONF_TO_CHECK_EXPR', '_HINT_CONF_TO_CHECK_EXPR_get') for x in ast.walk(c))]
    uses_ok = all(any(isinstance(x, ast.Name) and x.id == 'CACHE_KEY' for x in ast.walk(u)) for u in uses) and bool(uses)
    rep.add('C14.check_expr_cache.key_is_the_reduced_hint_and_conf', 'proved' if (ok and uses_ok) else 'refuted', backend='structural',
            where='make_check_expr reads and fills its cache under CACHE_KEY = (hint_sane, conf) - the whole reduction result, not a projection of it' if (ok and uses_ok) else f'CACHE_KEY = {[ast.unparse(k.value) for k in keys]}; table accesses {[ast.unparse(u)[:60] for u in uses][:3]}')
    env = dict(os.environ); env['PYTHONPATH'] = REPO
    p = subprocess.run([sys.executable, '-c', EXPRKEY_SRC], capture_output=True, text=True, timeout=120, env=env, cwd='/')
    if p.returncode not in (0, 1) or (p.returncode == 1 and not p.stdout.strip().startswith('[')): rep.error('C14 expr_cache harness: ' + (p.stdout + p.stderr)[-600:]); return
    if p.returncode == 1:
        rep.add('C14.history.subscriptions_of_one_generic', 'refuted', backend='runtime-contract', bounded=True, where=p.stdout.strip()[-400:], solver_output='bounded run-time contract in a fresh interpreter (not a proof)',
                replay=dict(reproduced=True, detail=p.stdout.strip()[-300:]), replay_script=f"import subprocess\nenv = dict(os.environ); env['PYTHONPATH'] = os.environ.get('VERIF_REPO', {REPO!r})\np = subprocess.run([sys.executable, '-c', {EXPRKEY_SRC!r}], env=env, cwd='/')\nsys.exit(p.returncode)\n")
    rep.bounded.append(dict(kind='answers for Box[int] / Box[str] / Box of a user generic in every asking order (bounded stand-in, NOT counted as proved)', scenarios=4, failing=int(p.returncode == 1)))

REPR_SRC = """
from typing import Annotated
from beartype.vale import Is
from beartype.door import is_bearable
def mk(k): return list[Annotated[int, Is[lambda x: x > k]]]
h1, h2 = mk(0), mk(100)          # two different hints with the same repr()
first = is_bearable([5], h1)      # earlier query with a similar hint
later = is_bearable([5], h2)      # must not depend on it: 5 > 100 is False
print("is_bearable([5], k=0) ->", first, "; then is_bearable([5], k=100) ->", later)
sys.exit(1 if later else 0)
"""
def coerce_transparent(rep):
    """coerce_hint_any deduplicates uncached hints through a table keyed by repr(hint).  Transparency: whatever earlier hints were
    coerced, the hint returned IS the argument or compares equal to it.  The table is a ghost map from representations to hints with the
    invariant `every stored hint is stored under its own representation` (re-proved at the store: the callee contract of
    cache_or_get_cached_value, itself proved above, stores exactly (key, value))."""
    from pyvc import funcmode, model as M, discharge
    from pyvc.symx import Exec, St, VObj, VPy, VBool
    import beartype._check.convert._convcoerce as mod
    fobj, node, _ = funcmode.load('beartype/_check/convert/_convcoerce.py', 'coerce_hint_any')
    uni = M.Universe()
    HINT = z3.Const('hint', M.Obj)
    hrepr = z3.Function('hint_repr', M.Obj, M.Obj); present = z3.Function('T_present', M.Obj, z3.BoolSort()); stored = z3.Function('T_stored', M.Obj, M.Obj)
    worthy = z3.Function('is_cacheworthy', M.Obj, z3.BoolSort())
    def m_worthy(ex, s, f, a, kw, w): return [(s, VBool(worthy(ex.obj(a[0]))))]
    def m_repr(ex, s, f, a, kw, w): return [(s, VObj(hrepr(ex.obj(a[0]))))]
    def m_cache(ex, s, f, a, kw, w):
        key = ex.obj(kw['key'] if 'key' in kw else a[0]); val = ex.obj(kw['value'] if 'value' in kw else a[1])
        s = s.ev('table', key, val)
        return [(s, VObj(z3.If(present(key), stored(key), val)))]
    cm = {mod.is_hint_cacheworthy: m_worthy, mod.get_hint_repr: m_repr, mod._hint_repr_to_hint.cache_or_get_cached_value: m_cache}
    ex = Exec(uni, dict(mod.__dict__), call_model=cm, name='coerce_hint_any')
    outs = ex.run_function(node, St(), (VObj(HINT),), {}, fobj)
    k = z3.Const('k_', M.Obj)
    inv = z3.ForAll([k], z3.Implies(present(k), hrepr(stored(k)) == k))
    pr = discharge.Prover(uni.axioms() + [inv])
    for ob in ex.obls:
        r = pr.prove(list(ob.pc), ob.goal); rep.add(f'C14.coerce_hint_any.{ob.kind}#{ob.name.rsplit(".", 1)[-1]}', r.status, time=r.time, backend=r.backend, where=ob.where)
    if not outs: rep.error('C14.coerce_hint_any: no path')
    for i, (s, v) in enumerate(outs):
        res = ex.obj(v)
        r = pr.prove(list(s.pc), z3.Or(res == HINT, M.eq(res, HINT)))
        extra = {}
        if r.status == 'refuted':
            import subprocess, sys
            from pyvc import VERIF, REPO
            src = f"import sys, os\nos.environ['VERIF_REPO'] = {REPO!r}\nsys.path.insert(0, {VERIF!r})\nimport pyvc; pyvc.use_repo()\n" + REPR_SRC
            p = subprocess.run([sys.executable, '-c', src], capture_output=True, text=True, timeout=120)
            extra = dict(replay=dict(kind='C14', reproduced=p.returncode == 1, tried=[dict(out=(p.stdout + p.stderr)[-300:])], detail=p.stdout.strip()[-250:]),
                         replay_script=(("os.environ['VERIF_REPO'] = %r\nimport pyvc; pyvc.use_repo()\n" % REPO) + REPR_SRC) if p.returncode == 1 else None)
        rep.add(f'C14.coerce_hint_any.post.returns_equal_hint.path{i}', r.status, time=r.time, backend=r.backend, reason=r.reason, **extra,
                where='the coerced hint is the argument itself or compares equal to it, whatever hints were coerced before (equal representations do not imply equal hints)')
        # the table invariant is preserved: whatever is stored is stored under its own representation
        for e in s.events:
            if e[0] == 'table':
                r2 = pr.prove(list(s.pc), hrepr(e[2]) == e[1])
                rep.add(f'C14.coerce_hint_any.inv.stored_under_own_repr.path{i}', r2.status, time=r2.time, backend=r2.backend, where='the value handed to the table is keyed by its own representation')

def main(tier, seed):
    rep = report.Report('C14', tier, seed, 'proof', f'./check C14 --tier {tier}')
    for fn, args in ((memoiser, ('callable_cached', 'beartype/_util/cache/utilcachecall.py', 'callable_cached', '_callable_cached', False)),
                     (memoiser, ('method_cached_arg_by_id', 'beartype/_util/cache/utilcachecall.py', 'method_cached_arg_by_id', '_method_cached', True)),
                     (cache_unbounded, ()), (structural, ()), (redefinition, ()), (cacheable_flag, ()), (forward_refs, ()), (coerce_transparent, ()), (fwdref_cache, ()), (abc_register, ()), (door_cache, ()), (expr_cache, ())):
        try: fn(rep, *args)
        except Exception: rep.error(f'C14 {fn.__name__}{args[:1]}: ' + traceback.format_exc()[-1800:])
    files = ['beartype/_util/cache/utilcachecall.py', 'beartype/_util/cache/map/utilmapunbounded.py', 'beartype/_util/cache/utilcacheclear.py', 'beartype/_decor/_type/decortype.py']
    rep.functions = ['callable_cached.<locals>._callable_cached', 'method_cached_arg_by_id.<locals>._method_cached', 'CacheUnboundedStrong.cache_or_get_cached_func_return_passed_arg',
                     'CacheUnboundedStrong.cache_or_get_cached_value', 'coerce_hint_any', 'HintTreeCode.sanify_hint_child', 'BeartypeForwardRefMeta.__resolved_hint_beartype__', 'BeartypeForwardRefMeta.__resolved_type_beartype__', 'clear_caches (structural)', '_uncache_beartype_if_type_redefined (bounded run-time contract)'] + [f'{p}@{report.src_hash(p)}' for p in files]
    from pyvc import model as M
    rep.trusted = ['pyvc', 'z3 5.1 / cvc5'] + M.ASSUMED_SEMANTICS + ['dict get/set identify keys modulo ==/hash and raise TypeError for an unhashable key']
    rep.assumptions = ['precondition of every memoised function: deterministic in time and a congruence for ==/hash of its arguments (exceptions are cached: a function whose failure is transient violates this - forward-reference resolution is NOT memoised by these decorators, see fwdrefmeta)',
                       'memoised functions never return the private SENTINEL; exception objects are truthy', 'id() is unique only among simultaneously alive objects',
                       'the answer-level clause (is_bearable/die_if_unbearable/is_subhint after arbitrary histories) rests on these per-memoiser contracts plus C17 (configurations) and is not explored as histories here',
                       'the with-statement on the table lock is transparent (ownership under C15)']
    rep.extra['explanation'] = 'function-mode proofs of the memoiser closures against a transparency contract with ghost tables; structural coverage of clear_caches'
    return rep.finish()
