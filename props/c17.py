"""C17 - BeartypeConf memoised, comparable, validated uniformly.  Function mode on the REAL BeartypeConf.__new__ (callees
default_conf_kwargs / die_if_conf_kwargs_invalid / sanify_conf_kwargs inlined from their real source), __eq__, __hash__,
kwargs; the memo table is a ghost map keyed modulo ==/hash (model.eqc) - which is what exposes look-alike keys (1 == True)."""
import ast, os, sys, time, z3, traceback, itertools
from pyvc import report

OPTS = ['claw_decor_place_func', 'claw_decor_place_type', 'claw_is_pep526', 'claw_skip_package_names', 'hint_overrides', 'is_color', 'is_debug',
        'is_pep484_tower', 'is_pep557_fields', 'is_random', 'strategy', 'violation_door_type', 'violation_param_type', 'violation_return_type',
        'violation_type', 'violation_verbosity', 'warning_cls_on_decorator_exception']
# options that read back exactly as passed (the property's "documented adjustments" are: is_color <- environment variable,
# hint_overrides <- numeric tower, violation_*_type <- violation_type default, warning_cls <- internal default marker)
READBACK_AS_PASSED = ['claw_decor_place_func', 'claw_decor_place_type', 'claw_is_pep526', 'claw_skip_package_names', 'is_debug', 'is_pep484_tower',
                      'is_pep557_fields', 'is_random', 'strategy', 'violation_type', 'violation_verbosity']

def run(rep):
    from pyvc import funcmode, model as M, symx, discharge
    from pyvc.symx import Exec, St, VObj, VPy, VGhostMap, VExc, VTup
    fobj, node, mod = funcmode.load('beartype/_conf/confmain.py', 'BeartypeConf.__new__')
    import beartype._conf.conftest as ct, beartype._conf._confoverrides as co, beartype._conf._confget as cg
    from beartype.roar import BeartypeConfParamException
    uni = M.Universe()
    import collections.abc as cabc
    import enum as _enum0
    for c in (cabc.Sized, cabc.Collection, cabc.Sequence, cabc.Mapping, cabc.Iterable, bool, int, type, Exception, Warning, True, False, None, _enum0.Enum): uni.const(c)
    A = {o: z3.Const('a_' + o, M.Obj) for o in OPTS}
    COLOR = z3.Const('is_color_resolved', M.Obj)
    def m_get_is_color(ex, s, f, args, kw, where): return [(s.ev('get_is_color'), VObj(COLOR))]
    def m_noop(ex, s, f, args, kw, where): return [(s, VPy(None))]
    def m_tower(ex, s, f, args, kw, where):
        # contract of sanify_conf_kwargs_is_pep484_tower (verified separately under C18): replaces hint_overrides, or raises BeartypeConfParamException on a conflict
        ex.raised.append((s.ev('tower_conflict'), VExc(BeartypeConfParamException)))
        return [(ex.setitem(s, args[0], VPy('hint_overrides'), VObj(M.fresh('hint_overrides_tower'))), VPy(None))]
    def m_die(ex, s, f, args, kw, where):
        return [(s2.ev('validated'), v) for s2, v in ex.inline(s, ct.die_if_conf_kwargs_invalid, args, kw, where)]
    scope = dict(mod.__dict__)
    scope['_beartype_conf_args_to_conf'] = VGhostMap('confs')
    cm = {mod.get_is_color: m_get_is_color, mod.issue_warning_deprecated_option: m_noop, ct.sanify_conf_kwargs_is_pep484_tower: m_tower,
          mod.die_if_conf_kwargs_invalid: m_die}
    ex = Exec(uni, scope, call_model=cm, name='BeartypeConf.__new__'); ex.fields_mode = True; ex.ghost_unhashable = True      # the memo table hashes its key: TypeError for an unhashable option value
    args = {'cls': VPy(mod.BeartypeConf)}
    for o in OPTS: args[o] = VObj(A[o])
    for o in ('claw_decoration_position_funcs', 'claw_decoration_position_types', 'is_check_pep557'): args[o] = VPy(None)
    outs = ex.run_function(node, St(), (), args, fobj)
    outs = [('return', s, v) for s, v in outs] + [('raise', s, v) for s, v in ex.raised]
    axioms = uni.axioms()
    # hashability of the values validation lets through: booleans, None, classes and enumeration members are hashable; collections and frozen
    # dictionaries are hashable only if they (and their items) are - which validation does not establish
    yh = z3.Const('y_hash', M.Obj)
    import enum as _enum
    axioms += [z3.ForAll([yh], z3.Implies(z3.Or(M.inst(yh, uni.const(bool)), yh == uni.const(None), M.inst(yh, uni.const(type)), M.inst(yh, uni.const(_enum.Enum))), M.hashable(yh))), M.hashable(COLOR)]
    prover = discharge.Prover(axioms)
    key_expected = tuple(M.eqc(COLOR if o == 'is_color' else A[o]) for o in OPTS)
    def add(name, hyps, goal, where='', replay=None):
        r = prover.prove(hyps, goal)
        d = dict(time=r.time, backend=r.backend, where=where, solver_output=f'{r.backend}: {r.status}')
        if r.status == 'refuted' and replay: d.update(replay(r))
        rep.add(name, r.status, **d)
    for ob in ex.obls: add(f'C17.new.{ob.kind}#{ob.name.rsplit(".", 1)[-1]}', list(ob.pc), ob.goal, ob.where)
    nret = 0; RT = {}; DOM = {}; other_exc = []; other_cls = set()
    for pi, (kind, s, v) in enumerate(outs):
        evs = list(s.events); pc = list(s.pc); tag = f'path{pi}'
        stores = [e for e in evs if e[0] == 'ghost_store']; gets = [e for e in evs if e[0] == 'ghost_get']
        validated = any(e[0] == 'validated' for e in evs)
        if kind == 'return':
            nret += 1
            # post.invalid: no configuration is returned without its (defaulted) options having passed validation on THIS call
            if validated: rep.add(f'C17.new.post.invalid.{tag}', 'proved', backend='structural', where='die_if_conf_kwargs_invalid completed normally on this path')
            else:
                rep.add(f'C17.new.post.invalid.{tag}', 'refuted', backend='structural+z3', where='a configuration is returned on a path that never validated the passed options (cache hit precedes validation)',
                        solver_output='path lacks the `validated` event; witness searched with z3', **replay_invalid(s, pc, A, uni, axioms, COLOR))
            if gets and not stores:
                # hit: returns the stored object
                present, val = ex.ghost_lookup(St(), VGhostMap('confs'), VTup(tuple(VObj(COLOR if o == 'is_color' else A[o]) for o in OPTS)))
                add(f'C17.new.post.memo.hit_returns_stored.{tag}', pc, ex.obj(v) == val)
            elif stores:
                ok = len(stores) == 1 and len(stores[0][2]) == len(OPTS)
                rep.add(f'C17.new.post.memo.stored_once.{tag}', 'proved' if ok else 'refuted', backend='structural', where=f'{len(stores)} table store(s)')
                if ok:
                    add(f'C17.new.post.memo.key_is_all_options_in_order.{tag}', pc, z3.And(*[a == b for a, b in zip(stores[0][2], key_expected)]))
                    add(f'C17.new.post.memo.stores_returned_object.{tag}', pc, ex.obj(stores[0][3]) == ex.obj(v))
                    allocs = [e for e in evs if e[0] == 'alloc']
                    rep.add(f'C17.new.post.fresh.{tag}', 'proved' if (len(allocs) == 1 and ex.obj(v).eq(allocs[0][1])) else 'refuted', backend='structural', where='miss returns a freshly allocated instance')
                    selfobj = ex.obj(v)
                    for o in READBACK_AS_PASSED:
                        add(f'C17.new.post.readback.{o}.{tag}', pc, z3.Select(ex.field(s, '_' + o), selfobj) == A[o], f'self._{o} is the passed {o}')
                    add(f'C17.new.post.readback.is_color.{tag}', pc, z3.Select(ex.field(s, '_is_color'), selfobj) == COLOR)
                    # the three warn-vs-raise flags are computed from THEIR OWN violation class (used by the code generator, C03)
                    for which in ('door', 'param', 'return'):
                        last_t = None
                        kwf = dict(s.hget(('dict', s.hget(('fieldlast', '_conf_kwargs'))[1].rid), ())) if s.hget(('fieldlast', '_conf_kwargs')) is not None else {}
                        if f'violation_{which}_type' in kwf:
                            add(f'C17.new.post.warnflag.{which}.{tag}', pc, z3.Select(ex.field(s, f'_is_violation_{which}_warn'), selfobj) == M.box_bool(M.subc(ex.obj(kwf[f'violation_{which}_type']), uni.const(Warning))),
                                f'_is_violation_{which}_warn == issubclass(violation_{which}_type, Warning)')
                    # post.roundtrip: BeartypeConf(**conf.kwargs) is conf  <=>  the options stored in `kwargs` form a key equal (==/hash) to this one
                    last = s.hget(('fieldlast', '_conf_kwargs'))
                    if last is not None and isinstance(last[1], symx.VDictRef):
                        kwfinal = dict(s.hget(('dict', last[1].rid), ()))
                        for o, dom in domains(uni, mod).items():
                            if o in kwfinal: DOM.setdefault(o, []).append(z3.And(*pc, z3.Not(dom(ex.obj(kwfinal[o])))))
                        for o in OPTS:
                            if o == 'is_color' or o not in kwfinal: continue
                            RT.setdefault(o, []).append(z3.And(*pc, z3.Not(M.eqc(ex.obj(kwfinal[o])) == M.eqc(A[o]))))
                    # hash / eq fields
                    kc = ex.keycls(VTup(tuple(VObj(COLOR if o == 'is_color' else A[o]) for o in OPTS)))
                    H = z3.Function(f'hash{len(kc)}', *([M.Obj] * len(kc)), M.Obj)
                    add(f'C17.new.post.hash_field.{tag}', pc, z3.Select(ex.field(s, '_hash'), selfobj) == H(*kc))
            else:
                rep.add(f'C17.new.post.memo.{tag}', 'refuted', backend='structural', where='return path with neither a table hit nor a table store')
        else:
            okc = isinstance(v, VExc) and issubclass(v.cls, BeartypeConfParamException)
            if okc: rep.add(f'C17.new.post.raises_param_exception.{tag}', 'proved', backend='structural', where=f'raises {getattr(v, "cls", v)}')
            else:
                # another exception class: only a violation if the path is feasible (e.g. validated values that are not hashable)
                other_exc.append(z3.And(*pc)); other_cls.add(getattr(getattr(v, 'cls', None), '__name__', str(v)))
            rep.add(f'C17.new.post.failure_stores_nothing.{tag}', 'proved' if not stores else 'refuted', backend='structural', where='table unchanged on a raising path')
    if other_exc:
        def rp(r):
            import subprocess, sys, os
            from pyvc import REPO
            src = "import sys\nfrom beartype import BeartypeConf\nfrom beartype.roar import BeartypeConfParamException\ntry: BeartypeConf(claw_skip_package_names=['numpy']); print('accepted'); sys.exit(0)\nexcept BeartypeConfParamException: print('BeartypeConfParamException'); sys.exit(0)\nexcept Exception as e: print('raised', type(e).__name__, e); sys.exit(1)\n"
            env = dict(os.environ); env['PYTHONPATH'] = REPO
            p = subprocess.run([sys.executable, '-c', src], capture_output=True, text=True, env=env, cwd='/')
            return dict(replay=dict(kind='C17', reproduced=p.returncode == 1, detail="BeartypeConf(claw_skip_package_names=['numpy']): " + p.stdout.strip()[-150:]), replay_script=(f"import subprocess\nenv = dict(os.environ); env['PYTHONPATH'] = {REPO!r}\np = subprocess.run([sys.executable, '-c', {src!r}], env=env, cwd='/')\nsys.exit(p.returncode)\n") if p.returncode == 1 else None)
        add('C17.new.post.raises_only_param_exception.allpaths', [], z3.Not(z3.Or(*other_exc)), f'no feasible path raises {sorted(other_cls)} ({len(other_exc)} candidate paths): an option value that passed validation never makes the memo lookup fail', replay=rp)
    for o, disj in RT.items():
        # one obligation per option over ALL miss paths: no path on which conf.kwargs[o] differs (modulo ==) from the passed value
        add(f'C17.new.post.roundtrip.{o}.allpaths', [], z3.Not(z3.Or(*disj)), f'conf.kwargs[{o!r}] equals the passed {o} on each of {len(disj)} paths', replay=(lambda r, o=o: replay_roundtrip(o)))
    for o, disj in DOM.items():
        add(f'C17.new.post.domain.{o}.allpaths', [], z3.Not(z3.Or(*disj)), f'a stored configuration has {o} inside its documented domain ({len(disj)} paths)')
    rep.extra['paths_new'] = len(outs)
    # ---- __eq__, __hash__, kwargs, the option properties (function mode, tiny bodies)
    small(rep, uni, axioms)
    return ex

def domains(uni, mod):
    """documented option domains (from the parameter annotations of BeartypeConf.__new__ and the property text), one line each"""
    from pyvc import model as M
    from beartype import BeartypeDecorPlace, BeartypeStrategy, BeartypeViolationVerbosity, FrozenDict
    C = uni.const; inst = M.inst
    isb = lambda t: inst(t, C(bool))
    exc = lambda t: z3.And(inst(t, C(type)), M.subc(t, C(Exception)))
    return {
        'claw_decor_place_func': lambda t: inst(t, C(BeartypeDecorPlace)), 'claw_decor_place_type': lambda t: inst(t, C(BeartypeDecorPlace)),
        'claw_is_pep526': isb, 'is_debug': isb, 'is_pep484_tower': isb, 'is_pep557_fields': isb, 'is_random': isb,
        'hint_overrides': lambda t: z3.BoolVal(True),   # replaced by the tower contract; FrozenDict-ness is checked before (die_if)
        'is_color': lambda t: z3.Or(inst(t, C(type(None))), isb(t)),
        'strategy': lambda t: inst(t, C(BeartypeStrategy)), 'violation_verbosity': lambda t: inst(t, C(BeartypeViolationVerbosity)),
        'violation_door_type': exc, 'violation_param_type': exc, 'violation_return_type': exc,
        'violation_type': lambda t: z3.Or(t == C(None), exc(t)),
        'warning_cls_on_decorator_exception': lambda t: z3.Or(t == C(None), z3.And(inst(t, C(type)), M.subc(t, C(Warning)))),
        'claw_skip_package_names': lambda t: inst(t, C(__import__('collections.abc').abc.Collection)),
    }

def small(rep, uni, axioms):
    from pyvc import funcmode, model as M, discharge
    from pyvc.symx import Exec, St, VObj, VPy
    import beartype._conf.confmain as mod
    prover = discharge.Prover(axioms)
    S = z3.Const('self', M.Obj); O = z3.Const('other', M.Obj)
    # __hash__ returns the field written by __new__
    f, node, _ = funcmode.load('beartype/_conf/confmain.py', 'BeartypeConf.__hash__')
    ex = Exec(uni, dict(mod.__dict__), name='__hash__'); ex.fields_mode = True
    outs = ex.run_function(node, St(), (VObj(S),), {}, f)
    for i, (s, v) in enumerate(outs):
        r = prover.prove(list(s.pc), ex.obj(v) == z3.Select(ex.field(s, '_hash'), S)); rep.add(f'C17.hash.post.returns_hash_field.path{i}', r.status, time=r.time, backend=r.backend)
    # __eq__: for two configurations, == is equality of the argument tuples
    f, node, _ = funcmode.load('beartype/_conf/confmain.py', 'BeartypeConf.__eq__')
    ex = Exec(uni, dict(mod.__dict__), name='__eq__'); ex.fields_mode = True
    outs = ex.run_function(node, St(), (VObj(S), VObj(O)), {}, f)
    for i, (s, v) in enumerate(outs):
        isconf = M.inst(O, uni.const(mod.BeartypeConf))
        want = M.eq(z3.Select(ex.field(s, '_conf_args'), S), z3.Select(ex.field(s, '_conf_args'), O))
        r = prover.prove(list(s.pc) + [isconf], ex.truth(v) == want); rep.add(f'C17.eq.post.compares_conf_args.path{i}', r.status, time=r.time, backend=r.backend)
        r = prover.prove(list(s.pc) + [z3.Not(isconf)], ex.obj(v) == uni.const(NotImplemented)); rep.add(f'C17.eq.post.notimplemented_for_others.path{i}', r.status, time=r.time, backend=r.backend)
    # every public option property returns its own private field (structural, on the real AST)
    import inspect
    for o in OPTS + ['kwargs']:
        prop = inspect.getattr_static(mod.BeartypeConf, o, None)
        ok = False; where = 'property missing'
        if isinstance(prop, property):
            f, node, _ = funcmode.load('beartype/_conf/confmain.py', f'BeartypeConf.{o}')
            body = [b for b in node.body if not (isinstance(b, ast.Expr) and isinstance(b.value, ast.Constant))]
            want = '_conf_kwargs' if o == 'kwargs' else '_' + o
            ok = (len(body) == 1 and isinstance(body[0], ast.Return) and isinstance(body[0].value, ast.Attribute) and isinstance(body[0].value.value, ast.Name)
                  and body[0].value.value.id == 'self' and body[0].value.attr == want)
            where = ast.unparse(body[0]) if body else 'empty'
        rep.add(f'C17.property.{o}.returns_own_field', 'proved' if ok else 'refuted', backend='structural', where=where)

POOL = None
def pool():
    from beartype import BeartypeDecorPlace, BeartypeStrategy, BeartypeViolationVerbosity, FrozenDict
    return [True, False, 1, 0, 1.0, 0.0, None, 'x', (), ValueError, UserWarning, int, BeartypeDecorPlace.FIRST, BeartypeDecorPlace.LAST, BeartypeStrategy.O1, BeartypeStrategy.On,
            BeartypeViolationVerbosity.DEFAULT, FrozenDict(), FrozenDict({int: str}), ('a',), 2]

def replay_invalid(s, pc, A, uni, axioms, COLOR):
    """find option values (from a pool) that make the hit path feasible although validation would reject them, then run
    the real BeartypeConf twice in a fresh interpreter: first with ==-equal VALID values, then with the look-alikes"""
    import subprocess, json
    from pyvc import VERIF, REPO
    out = dict(replay=dict(kind='C17', reproduced=False, tried=[]))
    # candidates: single-option look-alikes (value invalid for its option but == to a valid value)
    script_tmpl = '''
import sys; sys.path.insert(0, %r)
from beartype import BeartypeConf
from beartype.roar import BeartypeConfParamException
first = BeartypeConf(**%s)
try:
    second = BeartypeConf(**%s)
except BeartypeConfParamException:
    print("rejected"); sys.exit(0)
print("ACCEPTED look-alike: returned", "the earlier object" if second is first else "another object"); sys.exit(1)
'''
    cands = [('is_debug', True, 1), ('is_random', False, 0), ('claw_is_pep526', True, 1.0), ('is_pep484_tower', True, 1), ('is_pep557_fields', False, 0.0)]
    for opt, good, bad in cands:
        # the invalid call alone must be rejected (otherwise it is not an invalid option value)
        src = script_tmpl % (REPO, {opt: good}, {opt: bad})
        p = subprocess.run([sys.executable, '-c', src], capture_output=True, text=True, timeout=60)
        out['replay']['tried'].append(dict(first={opt: good}, second={opt: bad}, exit=p.returncode, out=p.stdout.strip()[:200]))
        if p.returncode == 1:
            out['replay'].update(reproduced=True, detail=f'BeartypeConf({opt}={good!r}) then BeartypeConf({opt}={bad!r}): {p.stdout.strip()} (alone BeartypeConf({opt}={bad!r}) raises BeartypeConfParamException)')
            out['replay_script'] = src + '\n'
            break
    return out

_RT = {}
def replay_roundtrip(opt):
    if opt in _RT: return _RT[opt]
    _RT[opt] = _replay_roundtrip(opt); return _RT[opt]
def _replay_roundtrip(opt):
    import subprocess
    from pyvc import REPO
    confs = {'violation_door_type': 'BeartypeConf()', 'violation_param_type': 'BeartypeConf()', 'violation_return_type': 'BeartypeConf()',
             'hint_overrides': 'BeartypeConf(is_pep484_tower=True)'}
    src = f'''
import sys; sys.path.insert(0, {REPO!r})
from beartype import BeartypeConf
conf = {confs.get(opt, 'BeartypeConf()')}
again = BeartypeConf(**conf.kwargs)
print("is:", again is conf, "==:", again == conf, "kwargs[{opt!r}] =", conf.kwargs[{opt!r}])
sys.exit(0 if again is conf else 1)
'''
    p = subprocess.run([sys.executable, '-c', src], capture_output=True, text=True, timeout=60)
    rp = dict(kind='C17', reproduced=p.returncode == 1, tried=[dict(out=p.stdout.strip()[:200])], detail=f'{confs.get(opt, "BeartypeConf()")}: BeartypeConf(**conf.kwargs) -> {p.stdout.strip()}')
    return dict(replay=rp, replay_script=src if p.returncode == 1 else None)

ISCOLOR_SRC = """
import os, sys, warnings
os.environ['BEARTYPE_IS_COLOR'] = 'True'
from beartype import BeartypeConf
from beartype.roar import BeartypeConfParamException
bad = []
for v in ('banana', [], 1, 1.0):
    with warnings.catch_warnings():
        warnings.simplefilter('ignore')
        try: BeartypeConf(is_color=v); bad.append((v, 'accepted'))
        except BeartypeConfParamException: pass
        except Exception as e: bad.append((v, type(e).__name__))
print(bad); sys.exit(1 if bad else 0)
"""
def is_color_contract(rep):
    """(F) get_is_color: the contract BeartypeConf.__new__ relies on for uniform rejection - a normal return means the PASSED is_color was
    the unpassed marker or a tri-state boolean, whatever ${BEARTYPE_IS_COLOR} says (its docstring promises BeartypeConfParamException
    otherwise).  The environment lookup is an abstract value."""
    from pyvc import funcmode, model as M, discharge
    from pyvc.symx import Exec, St, VObj, VPy
    import beartype._conf._confget as cg
    fobj, node, _ = funcmode.load('beartype/_conf/_confget.py', 'get_is_color')
    uni = M.Universe()
    for c in (bool, type(None), True, False, None): uni.const(c)
    X = z3.Const('is_color_passed', M.Obj)
    def m_noop(ex, s, f, a, kw, w): return [(s, VPy(None))]
    ex = Exec(uni, dict(cg.__dict__), call_model={cg.issue_warning: m_noop, cg.join_delimited_disjunction: m_noop}, name='get_is_color'); ex.fields_mode = True
    outs = ex.run_function(node, St(), (VObj(X),), {}, fobj)
    pr = discharge.Prover(uni.axioms())
    valid = z3.Or(X == uni.const(cg.ARG_VALUE_UNPASSED), X == uni.const(None), M.inst(X, uni.const(bool)))
    n = 0
    for i, (s_, v) in enumerate(outs):
        n += 1
        # either the passed value is valid, or it is handed back unchanged (BeartypeConf.__new__ then validates it itself: proved there)
        r = pr.prove(list(s_.pc), z3.Or(valid, ex.obj(v) == X))
        extra = {}
        if r.status == 'refuted':
            import subprocess, sys, os
            from pyvc import REPO
            env = dict(os.environ); env['PYTHONPATH'] = REPO
            p = subprocess.run([sys.executable, '-c', ISCOLOR_SRC], capture_output=True, text=True, env=env, cwd='/')
            extra = dict(replay=dict(kind='C17', reproduced=p.returncode == 1, detail='with BEARTYPE_IS_COLOR=True: ' + p.stdout.strip()[-200:]),
                         replay_script=(f"import subprocess\nenv = dict(os.environ); env['PYTHONPATH'] = {REPO!r}\np = subprocess.run([sys.executable, '-c', {ISCOLOR_SRC!r}], env=env, cwd='/')\nsys.exit(p.returncode)\n") if p.returncode == 1 else None)
        rep.add(f'C17.get_is_color.post.passed_value_valid.path{i}', r.status, time=r.time, backend=r.backend, reason=r.reason, **extra,
                where='get_is_color() returns normally only if the passed is_color is the unpassed marker, None or a bool - also when the environment variable overrides it')
    if not n: rep.error('C17.get_is_color: no returning path')

COPY_SRC = """
import copy, pickle, sys
from beartype import BeartypeConf, BeartypeStrategy, FrozenDict
DEFAULTS = {k: getattr(BeartypeConf(), k) for k in ('is_debug', 'strategy', 'is_pep484_tower', 'hint_overrides', 'violation_type', 'claw_is_pep526', 'is_color')}
CONFS = {'debug_on': dict(is_debug=True, strategy=BeartypeStrategy.On), 'tower': dict(is_pep484_tower=True), 'override': dict(hint_overrides=FrozenDict({int: str})),
         'violation': dict(violation_type=ValueError), 'claw': dict(claw_is_pep526=False)}
bad = []
for name, kw in CONFS.items():
    for how, fn in (('copy.copy', copy.copy), ('copy.deepcopy', copy.deepcopy), ('pickle', lambda c: pickle.loads(pickle.dumps(c)))):
        c = BeartypeConf(**kw)
        try: d = fn(c)
        except Exception as e: bad.append((name, how, 'raised ' + type(e).__name__ + ': ' + str(e)[:80])); continue
        if d != c: bad.append((name, how, 'the copy is not equal to the original'))
        now = {k: getattr(BeartypeConf(), k) for k in DEFAULTS}
        changed = sorted(k for k in DEFAULTS if now[k] != DEFAULTS[k])
        if changed: bad.append((name, how, f'BeartypeConf() now reads back {changed} = {[now[k] for k in changed]!r} (the default configuration was overwritten)'))
        for k, v in kw.items():
            if getattr(BeartypeConf(**kw), k) != v and k != 'hint_overrides': bad.append((name, how, f'BeartypeConf(**kw).{k} no longer reads back as passed'))
        if bad: break
    if bad: break
print(bad)
sys.exit(1 if bad else 0)
"""
def copies(rep):
    """bounded history (NOT counted as proved; run in its own interpreter): copying or pickling a configuration never changes what any
    BeartypeConf(...) call returns or reads back afterwards"""
    import subprocess, sys, os
    from pyvc import REPO
    env = dict(os.environ); env['PYTHONPATH'] = REPO
    p = subprocess.run([sys.executable, '-c', COPY_SRC], capture_output=True, text=True, timeout=120, env=env, cwd='/')
    if p.returncode not in (0, 1) or (p.returncode == 1 and not p.stdout.strip().startswith('[')): rep.error('C17 copies harness: ' + (p.stdout + p.stderr)[-600:]); return
    if p.returncode == 1:
        rep.add('C17.history.copy_or_pickle_leaves_configurations_alone', 'refuted', backend='runtime-contract', where=p.stdout.strip()[-400:], solver_output='bounded run-time contract in a fresh interpreter (not a proof)',
                replay=dict(reproduced=True, detail=p.stdout.strip()[-400:]), replay_script=f"import subprocess\nenv = dict(os.environ); env['PYTHONPATH'] = {REPO!r}\np = subprocess.run([sys.executable, '-c', {COPY_SRC!r}], env=env, cwd='/')\nsys.exit(p.returncode)\n")
    rep.bounded.append(dict(kind='copy / deepcopy / pickle of configurations, then read-back of BeartypeConf() and BeartypeConf(**kw) (bounded stand-in, NOT counted as proved)', scenarios=15, failing=int(p.returncode == 1)))

def frozendict_contract(rep):
    """the memo key of a configuration contains the hint_overrides FrozenDict: the ghost-map proof of __new__ ASSUMES that ==-equal option values
    hash alike.  For FrozenDict that is a contract on real code: dict.__eq__ (inherited, trusted) compares the item SETS regardless of insertion
    order, so the hash stored by FrozenDict.__init__ must be a function of the item set.  Relational obligation over two runs of the real
    __init__: same item set => same stored hash (and the same hashable/unhashable verdict)."""
    from pyvc import funcmode, model as M, discharge
    from pyvc.symx import Exec, St, VObj, VPy, VExc, VInt
    import inspect
    fobj, node, mod = funcmode.load('beartype/_util/kind/maplike/utilmapfrozen.py', 'FrozenDict.__init__')
    FD = mod.FrozenDict
    rep.add('C17.frozendict.eq_is_dict_eq', 'proved' if ('__eq__' not in vars(FD) and '__ne__' not in vars(FD) and FD.__eq__ is dict.__eq__) else 'refuted', backend='structural',
            where='FrozenDict inherits dict.__eq__ (order-insensitive comparison of the item sets): the contract below is stated against it')
    uni = M.Universe(); uni.const(TypeError); NONE = uni.const(None)
    ITEMS = z3.Function('items_view', M.Obj, M.Obj); VALUES = z3.Function('values_view', M.Obj, M.Obj); KEYS = z3.Function('keys_view', M.Obj, M.Obj)
    FS = z3.Function('frozenset_of', M.Obj, M.Obj); SETOF = z3.Function('set_of', M.Obj, M.Obj); TUP = z3.Function('tuple_of', M.Obj, M.Obj); LST = z3.Function('list_of', M.Obj, M.Obj); SORTED = z3.Function('sorted_of', M.Obj, M.Obj)
    SAME = z3.Function('same_elements_as_sets', M.Obj, M.Obj, z3.BoolSort())
    HASHF = z3.Function('hash_of_class', M.eqc(NONE).sort(), z3.IntSort())
    x, y = z3.Consts('fx fy', M.Obj)
    axioms = uni.axioms() + [
        z3.ForAll([x, y], z3.Implies(SAME(x, y), z3.And(M.eqc(FS(x)) == M.eqc(FS(y)), M.hashable(FS(x)) == M.hashable(FS(y))))),      # frozenset equality is extensional; nothing of the kind holds for tuple(x) / list(x)
        z3.ForAll([x, y], z3.Implies(SAME(x, y), M.eqc(SETOF(x)) == M.eqc(SETOF(y))))]
    def unary(fn): return lambda ex, s, f, a, kw, w: [(s, VObj(fn(ex.obj(a[0]))))]
    def meth(fn): return lambda ex, s, f, a, kw, w: [(s, VObj(fn(ex.obj(f.self_))))]
    def m_hash(ex, s, f, a, kw, w):
        t = ex.obj(a[0]); outs = []
        for s2, ok in ex.fork(s, M.hashable(t)):
            if ok: outs.append((s2, VInt(HASHF(M.eqc(t)))))
            else: ex.raised.append((s2, VExc(TypeError, ())))
        return outs
    def m_noop(ex, s, f, a, kw, w): return [(s, VPy(None))]
    cm = {'super.__init__': m_noop, '.items': meth(ITEMS), '.values': meth(VALUES), '.keys': meth(KEYS), frozenset: unary(FS), set: unary(SETOF), tuple: unary(TUP), list: unary(LST), sorted: unary(SORTED), hash: m_hash}
    S1, S2 = z3.Consts('fd1 fd2', M.Obj)
    ex = Exec(uni, dict(mod.__dict__), call_model=cm, name='FrozenDict.__init__'); ex.fields_mode = True; ex.method_names = {'items', 'values', 'keys', '__init__'}
    outs1 = ex.run_function(node, St(), (VObj(S1),), {}, fobj)
    pr = discharge.Prover(axioms); n = 0
    for i, (s1, _) in enumerate(outs1):
        for j, (s2, _) in enumerate(ex.run_function(node, s1.with_env(()), (VObj(S2),), {}, fobj)):
            H = ex.field(s2, '_hash')
            h1, h2 = z3.Select(H, S1), z3.Select(H, S2)
            r0 = pr.prove(list(s2.pc) + [S1 != S2, SAME(ITEMS(S1), ITEMS(S2))], z3.BoolVal(False))
            if r0.status == 'proved': continue       # infeasible combination (one hashable, the other not)
            n += 1
            r = pr.prove(list(s2.pc) + [S1 != S2, SAME(ITEMS(S1), ITEMS(S2))], h1 == h2)
            rep.add(f'C17.frozendict.init.post.equal_dicts_hash_alike.path{i}_{j}', r.status, time=r.time, backend=r.backend, reason=r.reason,
                    where='two frozen dictionaries with the same item set (== by dict.__eq__, whatever the insertion order) store the same hash',
                    **({} if r.status != 'refuted' else _frozendict_replay()))
    if not n: rep.error('C17.frozendict: no feasible pair of paths (vacuous)')
    # frame condition: the hash is computed ONCE; it stays valid only if no inherited dict operation can change the items afterwards.
    # Mutators = what collections.abc.MutableMapping adds to Mapping, plus dict's in-place operators (names read from the real classes).
    import collections.abc as cabc
    mutators = sorted({n for n in set(dir(cabc.MutableMapping)) - set(dir(cabc.Mapping)) if callable(getattr(dict, n, None))} | {n for n in vars(dict) if n.startswith('__i') and n.endswith('__') and n not in ('__init__', '__iter__', '__init_subclass__')})
    CALLS = {'__setitem__': (2, 3), '__delitem__': (int,), 'pop': (int,), 'popitem': (), 'clear': (), 'update': ({2: 3},), 'setdefault': (2, 3), '__ior__': ({2: 3},)}
    for name in mutators:
        overridden = getattr(FD, name, None) is not getattr(dict, name, None)
        d = FD({int: str}); before = (dict(d), hash(d)); how = 'not called'
        try: getattr(d, name)(*CALLS.get(name, ())); how = 'returned'
        except Exception as e: how = f'raised {type(e).__name__}'
        same = (dict(d), hash(d)) == before
        rep.add(f'C17.frozendict.frame.immutable_after_init.{name}', 'proved' if (overridden and same) else 'refuted', backend='structural',
                where=f'dict.{name} ' + ('is overridden' if overridden else 'is INHERITED from dict (mutates in place)') + f'; calling it on FrozenDict({{int: str}}) {how} and left the items ' + ('unchanged' if same else f'CHANGED to {dict(d)!r} under the same stored hash'),
                **({} if (overridden and same) else dict(replay=dict(kind='C17', reproduced=not same, detail=f'FrozenDict({{int: str}}).{name}{CALLS.get(name, ())!r} {how}; items now {dict(d)!r}, hash unchanged: {hash(d) == before[1]}'),
                                                         replay_script=f"sys.path.insert(0, os.environ.get('VERIF_REPO', '/repo'))\nfrom beartype import FrozenDict\nd = FrozenDict({{int: str}}); h = hash(d)\ntry: d.{name}(*{CALLS.get(name, ())!r})\nexcept Exception as e: print('raised', type(e).__name__)\nprint(dict(d), hash(d) == h)\nsys.exit(1 if dict(d) != {{int: str}} else 0)\n" if not same else None)))
    if not mutators: rep.error('C17.frozendict: no mutator names derived')
    # __hash__ returns the stored hash when there is one
    fobj, node, _ = funcmode.load('beartype/_util/kind/maplike/utilmapfrozen.py', 'FrozenDict.__hash__')
    ex = Exec(uni, dict(mod.__dict__), call_model=cm, name='FrozenDict.__hash__'); ex.fields_mode = True; ex.method_names = {'items', 'values', 'keys'}
    try:
        outs = ex.run_function(node, St((), (z3.Select(z3.Const('H__hash', z3.ArraySort(M.Obj, M.Obj)), S1) != NONE,)), (VObj(S1),), {}, fobj)
        for i, (s_, v) in enumerate(outs):
            r = pr.prove(list(s_.pc), ex.obj(v) == z3.Select(ex.field(s_, '_hash'), S1))
            rep.add(f'C17.frozendict.hash.post.returns_stored_hash.path{i}', r.status, time=r.time, backend=r.backend, reason=r.reason)
        if not outs: rep.error('C17.frozendict.__hash__: no returning path')
    except Exception as e:
        rep.error('C17.frozendict.__hash__: ' + traceback.format_exc()[-800:])

FD_SRC = """
import sys, itertools
from beartype import BeartypeConf, FrozenDict
bad = []
pairs = [(int, str), (float, bytes), (str, int), (bool, complex)]
for r in (2, 3):
    for combo in itertools.combinations(pairs, r):
        base = FrozenDict(dict(combo)); cbase = BeartypeConf(hint_overrides=base)
        for perm in itertools.permutations(combo):
            d = FrozenDict(dict(perm))
            if d == base and hash(d) != hash(base): bad.append(f'FrozenDict{perm!r} == FrozenDict{combo!r} but their hashes differ')
            c = BeartypeConf(hint_overrides=d)
            if c == cbase and (c is not cbase or hash(c) != hash(cbase)): bad.append(f'BeartypeConf(hint_overrides={perm!r}) == BeartypeConf(hint_overrides={combo!r}) but same object: {c is cbase}, same hash: {hash(c) == hash(cbase)}')
            if bad: break
        if bad: break
print(bad[:2]); sys.exit(1 if bad else 0)
"""
def _frozendict_replay():
    import subprocess
    from pyvc import REPO
    env = dict(os.environ); env['PYTHONPATH'] = REPO
    p = subprocess.run([sys.executable, '-c', FD_SRC], capture_output=True, text=True, timeout=120, env=env, cwd='/')
    return dict(replay=dict(kind='C17', reproduced=p.returncode == 1, detail=p.stdout.strip()[-400:], tried=[]),
                replay_script=(f"import subprocess\nenv = dict(os.environ); env['PYTHONPATH'] = {REPO!r}\np = subprocess.run([sys.executable, '-c', {FD_SRC!r}], env=env, cwd='/')\nsys.exit(p.returncode)\n") if p.returncode == 1 else None)

COLLIDE_SRC = """
import sys
from typing import Literal
from beartype import BeartypeConf, FrozenDict
bad = []
# unequal option values whose hashes collide (CPython: hash(-1) == hash(-2), carried through tuples, frozensets, Literal and FrozenDict)
pairs = [(FrozenDict({int: Literal[-1]}), FrozenDict({int: Literal[-2]})), (FrozenDict({str: Literal[-1, 5]}), FrozenDict({str: Literal[-2, 5]}))]
for a, b in pairs:
    if a == b or hash(a) != hash(b): continue
    for first, second in ((a, b), (b, a)):
        pass
    ca = BeartypeConf(hint_overrides=a); cb = BeartypeConf(hint_overrides=b)
    if ca is cb or ca == cb: bad.append(f'configurations built from the unequal overrides {a!r} / {b!r} (equal hashes) are the same / equal')
    for c, passed in ((ca, a), (cb, b)):
        if dict(c.hint_overrides) != dict(passed): bad.append(f'hint_overrides reads back {c.hint_overrides!r}, passed {passed!r}')
for a, b in ((('pkg_a', -1), ('pkg_a', -2)),):
    pass
print(bad[:2]); sys.exit(1 if bad else 0)
"""
def collisions(rep):
    """bounded (NOT counted as proved): unequal option values with colliding hashes still give distinct configurations that read back as passed"""
    import subprocess
    from pyvc import REPO
    env = dict(os.environ); env['PYTHONPATH'] = REPO
    p = subprocess.run([sys.executable, '-c', COLLIDE_SRC], capture_output=True, text=True, timeout=120, env=env, cwd='/')
    if p.returncode not in (0, 1) or (p.returncode == 1 and not p.stdout.strip().startswith('[')): rep.error('C17 collisions harness: ' + (p.stdout + p.stderr)[-600:]); return
    if p.returncode == 1:
        rep.add('C17.history.hash_collision_keeps_configurations_apart', 'refuted', backend='runtime-contract', bounded=True, where=p.stdout.strip()[-400:], solver_output='bounded run-time contract in a fresh interpreter (not a proof)',
                replay=dict(reproduced=True, detail=p.stdout.strip()[-400:]), replay_script=f"import subprocess\nenv = dict(os.environ); env['PYTHONPATH'] = os.environ.get('VERIF_REPO', {REPO!r})\np = subprocess.run([sys.executable, '-c', {COLLIDE_SRC!r}], env=env, cwd='/')\nsys.exit(p.returncode)\n")
    rep.bounded.append(dict(kind='unequal option values with colliding hashes (bounded stand-in, NOT counted as proved)', scenarios=2, failing=int(p.returncode == 1)))

def main(tier, seed):
    rep = report.Report('C17', tier, seed, 'proof', f'./check C17 --tier {tier}')
    try:
        ex = run(rep)
        rep.dropped += sorted(ex.dropped)
    except Exception:
        rep.error('C17: ' + traceback.format_exc()[-2000:])
    try: is_color_contract(rep)
    except Exception: rep.error('C17 is_color_contract: ' + traceback.format_exc()[-1500:])
    try: copies(rep)
    except Exception: rep.error('C17 copies: ' + traceback.format_exc()[-1500:])
    try: frozendict_contract(rep)
    except Exception: rep.error('C17 frozendict_contract: ' + traceback.format_exc()[-1500:])
    try: collisions(rep)
    except Exception: rep.error('C17 collisions: ' + traceback.format_exc()[-1500:])
    try:
        # the callee contract BeartypeConf.__new__ is proved against (sanify_conf_kwargs_is_pep484_tower: replaces hint_overrides or raises on ANY conflict) is
        # established on the real function by C18's function-mode proof; its obligations are part of C17's "uniform rejection" too
        from props import c18
        n0 = len(rep.obls); c18.sanify_tower(rep)
        rep.obls[n0:] = [dict(o, name=o['name'].replace('C18.sanify_tower', 'C17.sanify_tower')) for o in rep.obls[n0:]]
    except Exception: rep.error('C17 sanify_tower: ' + traceback.format_exc()[-1500:])
    files = ['beartype/_conf/confmain.py', 'beartype/_conf/conftest.py', 'beartype/_conf/_confoverrides.py', 'beartype/_conf/_confget.py']
    rep.functions = ['beartype/_conf/confmain.py:BeartypeConf.__new__', 'beartype/_conf/confmain.py:BeartypeConf.__eq__', 'beartype/_conf/confmain.py:BeartypeConf.__hash__',
                     'beartype/_conf/conftest.py:default_conf_kwargs (inlined)', 'beartype/_conf/conftest.py:die_if_conf_kwargs_invalid (inlined)', 'beartype/_conf/conftest.py:sanify_conf_kwargs (inlined)',
                     'beartype/_util/cls/utilclstest.py:is_type_subclass (inlined)', '18 option properties (structural)', 'beartype/_conf/_confget.py:get_is_color (validation contract)'] + [f'{p}@{report.src_hash(p)}' for p in files]
    from pyvc import model as M
    rep.trusted = ['pyvc', 'z3 5.1 / cvc5'] + M.ASSUMED_SEMANTICS + ['dict lookup identifies keys modulo ==/hash (model.eqc); tuple keys componentwise']
    rep.assumptions = ['get_is_color: resolved value abstract in the __new__ proof; its validation contract is proved separately (C17.get_is_color.post.*); sanify_conf_kwargs_is_pep484_tower replaces hint_overrides or raises BeartypeConfParamException (see C18); issue_warning_deprecated_option has no effect on the result',
                       'the three deprecated alias parameters are left at None', 'keyword-argument order is irrelevant by the language contract (binding by name)',
                       'thread clause ("from any thread") is the lock ownership obligation of C15', 'the with-statement on _beartype_conf_lock is transparent']
    rep.extra['explanation'] = 'function-mode symbolic execution of the real BeartypeConf.__new__ with all option values symbolic and the memo table a ghost map modulo ==/hash'
    return rep.finish()
