# Finding 4: when the base hint T of Annotated[T, V1, ..., Vn] is itself an
# Annotated[...] carrying non-beartype metadata, typing flattens the hint to
# Annotated[X, 'meta', V1, ...] and beartype then silently ignores *all*
# validators (only the first metadatum is inspected).
import sys
import beartype
assert beartype.__file__.startswith('/tmp/wt/hunt_C12'), beartype.__file__
from typing import Annotated
from beartype import beartype as bt
from beartype.door import is_bearable, die_if_unbearable
from beartype.vale import IsEqual, Is

Metres = Annotated[int, 'unit: metres']          # a perfectly ordinary base hint T
H = Annotated[Metres, IsEqual[3], Is[lambda x: x > 0]]
print('hint:', H)
v = 4
print('IsEqual[3].is_valid(4)      =', IsEqual[3].is_valid(v))
print('is_bearable(4, H)           =', is_bearable(v, H))
print('is_bearable(-1, H)          =', is_bearable(-1, H))
@bt
def f(x: H): return x
try:
    f(v); accepted = True
except Exception as e:
    accepted = False
print('@beartype f(4) accepted     =', accepted)
# For comparison, the same validators *after* non-beartype metadata in the other order raise:
try:
    is_bearable(4, Annotated[int, IsEqual[3], 'unit: metres'])
except Exception as e:
    print('other order ->', type(e).__name__)
sys.exit(1 if (is_bearable(v, H) or accepted) else 0)
