# beartype.claw: a local variable annotated typing.Self inside a method of a
# claw-decorated class is checked without the class context.
import sys, os
sys.path.insert(0, os.path.dirname(os.path.abspath(__file__)))
from beartype.claw import beartype_package
beartype_package('clawself')
import clawself.mod as m
try:
    print(m.Node().me())
except Exception as e:
    print(type(e).__name__, str(e)[:260])
    sys.exit(1)
