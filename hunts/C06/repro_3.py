# beartype_packages() accepts any Iterable[str] but silently registers NOTHING when
# passed a one-shot iterable (generator, iter(...), map(...), file object, ...):
# validation exhausts the iterator, the registration loops then see it empty.
# The path hook is nevertheless installed although nothing is registered.
import hashlib
import os, sys, tempfile
import beartype
assert beartype.__file__.startswith('/tmp/wt/hunt_C06'), beartype.__file__
from beartype.claw import beartype_packages
from beartype.claw._clawstate import claw_state

root = tempfile.mkdtemp()
os.mkdir(os.path.join(root, 'c06gen'))
open(os.path.join(root, 'c06gen', '__init__.py'), 'w').close()
open(os.path.join(root, 'c06gen', 'mod.py'), 'w').write(
    'def f(x: int) -> int:\n    return x\n')
sys.path.insert(0, root)

names = ['c06gen', 'c06other']
beartype_packages(name.strip() for name in names)     # no exception raised
print('registered packages  :', list(claw_state.packages_trie_whitelist))
print('path hook installed  :', claw_state.beartype_path_hook is not None)

import c06gen.mod
try:
    c06gen.mod.f('not an int')
except Exception as e:
    print('OK: c06gen.mod is type-checked:', type(e).__name__)
    sys.exit(0)
print('BUG: beartype_packages(<generator yielding "c06gen">) succeeded, '
      'yet c06gen.mod is NOT type-checked')
sys.exit(1)
