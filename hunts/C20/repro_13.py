# A dict (len >= 2) holding a function whose annotations carry unhashable
# Annotated[] metadata: the mapping inferer adds child hints to a set unguarded.
from typing import Annotated
from beartype.door import infer_hint, is_bearable

def handler(x: Annotated[int, {'min': 0}]) -> None: pass

bad = 0
for name, obj in (('handler', handler), ('[handler, 1]', [handler, 1]),
                  ("{'a': handler, 'b': 1}", {'a': handler, 'b': 1})):
    try:
        hint = infer_hint(obj)
        ok = is_bearable(obj, hint)
        print(f'{name}: hint={hint!r} -> {ok}'); bad += ok is not True
    except Exception as e:
        print(f'{name}: raised {type(e).__name__}: {e}'); bad += 1
raise SystemExit(1 if bad else 0)
