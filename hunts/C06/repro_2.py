# Leaving a beartyping() block does NOT restore the skip list (package blacklist):
# packages named by conf.claw_skip_package_names stay blacklisted forever.
import hashlib  # (side-steps the unrelated circular-import bug of repro_1)
import os, sys, tempfile
import beartype
assert beartype.__file__.startswith('/tmp/wt/hunt_C06'), beartype.__file__
from beartype import BeartypeConf
from beartype.claw import beartype_package, beartyping

root = tempfile.mkdtemp()
os.mkdir(os.path.join(root, 'c06pkg'))
open(os.path.join(root, 'c06pkg', '__init__.py'), 'w').close()
open(os.path.join(root, 'c06pkg', 'mod.py'), 'w').write(
    'def f(x: int) -> int:\n    return x\n')
sys.path.insert(0, root)

# A block that temporarily type-checks everything *except* "c06pkg".
with beartyping(conf=BeartypeConf(claw_skip_package_names=('c06pkg',))):
    pass
# The block is over; nothing is registered and the path hook is gone:
from beartype.claw._clawstate import claw_state
print('path hook after block:', claw_state.beartype_path_hook)

# Now register "c06pkg" with a configuration that skips nothing.
beartype_package('c06pkg', conf=BeartypeConf())
import c06pkg.mod
try:
    c06pkg.mod.f('not an int')
except Exception as e:
    print('OK: c06pkg.mod is type-checked:', type(e).__name__)
    sys.exit(0)
print('BUG: c06pkg was registered and is in no *current* skip list, '
      'yet c06pkg.mod is NOT type-checked')
sys.exit(1)
